"""C02: MemoryFS is a faithful stand-in for PhysicalFS — lock-step differential.

The same operation from the same abstract tree (same symbolic bytes) is executed on the real
MemoryFS MIR and on the real PhysicalFS MIR running over the OS contract model (mirsym/osm.py).
Compared: success/failure of every call, the not-found / already-exists classes where the tree
determines them, returned data, and the full observable snapshot afterwards.  The claim is
relative to the OS model, which the selftest validates against the real kernel."""
import z3

from mirsym.engine import explore
from mirsym.values import *   # noqa
from .core import *           # noqa
from .framework import CaseResult, make_finding
from .script import ScriptRunner, hx
from .onestep import target_class, op_line
from .threads import canon, match


def cls(kind):
    if kind == 'FileNotFound':
        return 'not-found'
    if kind in ('FileExists', 'DirectoryExists'):
        return kind
    return 'other'


def build_both(sr, u, shape, lens=(1, 0, 2)):
    ex = sr.ex
    st = Setup(sr, u)
    sr.do('fs M mem')
    sr.do('fs P phys')
    st.define_paths('M', 'M_')
    st.define_paths('P', 'P_')
    t = Tree(u)
    fi = 0
    for v, k in shape:
        if k == 'd':
            r1 = sr.do('create_dir M_%s' % v)
            r2 = sr.do('create_dir P_%s' % v)
            t.n[v] = 'd'
        else:
            name = 'c_' + v
            sr.syms[name] = sym_content(ex, lens[fi % len(lens)], name)
            fi += 1
            r1 = sr.do('write M_%s $%s' % (v, name))
            r2 = sr.do('write P_%s $%s' % (v, name))
            t.n[v] = ('f', sr.syms[name])
        if r1 != 'ok' or r2 != 'ok':
            raise Unmodelled('C02 set-up failed at %s: %s / %s' % (v, r1, r2))
    return t


def compare_snapshots(sr, u, key, findings, what):
    ex = sr.ex
    sm = snapshot(sr, u, prefix='M_')
    sp = snapshot(sr, u, prefix='P_')
    for v in u.vars:
        a, b = sm[v], sp[v]
        ka, kb = observed_kind(a), observed_kind(b)
        if ka != kb:
            findings.append(make_finding('C02', key + '|%s:kind' % what, '%s: %s is %s on MemoryFS but %s on PhysicalFS' % (what, v, ka, kb), sr))
            continue
        if ka == 'file' and not is_err(a.content) and not is_err(b.content):
            if len(a.content) != len(b.content) or ex.check(seq_eq(a.content, b.content), 'bytes') is not None:
                findings.append(make_finding('C02', key + '|%s:bytes' % what, '%s: file %s holds different bytes on the two backends' % (what, v), sr))
        if ka == 'file' and not is_err(a.meta) and not is_err(b.meta) and a.meta != b.meta:
            findings.append(make_finding('C02', key + '|%s:len' % what, '%s: metadata of %s differs: %r vs %r' % (what, v, a.meta, b.meta), sr))
        if ka == 'dir':
            la = None if is_err(a.listing) else sorted(bytes(x)[len(bytes(sr.w.as_str(sr.paths['M_' + v] if v != 'R' else sr.paths['M_R']))):] for x in a.listing if S(x).is_concrete())
            lb = None if is_err(b.listing) else sorted(bytes(x)[len(bytes(sr.w.as_str(sr.paths['P_' + v] if v != 'R' else sr.paths['P_R']))):] for x in b.listing if S(x).is_concrete())
            if la != lb:
                findings.append(make_finding('C02', key + '|%s:listing' % what, '%s: %s lists %r on MemoryFS but %r on PhysicalFS' % (what, v, la, lb), sr))


def run_diff_case(prog, params):
    res = CaseResult()
    res.states = 1
    u = UNIVERSES[params['universe']]()
    shape = params['shape']
    for item in params['ops']:
        op, v = item[0], item[1]
        dst = item[2] if len(item) > 2 else None

        def h(ex, op=op, v=v, dst=dst):
            findings = []
            sr = ScriptRunner(ex)
            t = build_both(sr, u, shape)
            key = 'mem_vs_phys|%s|%s%s' % (op, target_class(t, v), ('|dst=' + target_class(t, dst)) if dst else '')
            if op in ('create_hold', 'append_hold', 'create_seek_hold'):
                # a create handle is held open while the path is observed, then written and dropped
                sr.syms['wdata'] = sym_content(ex, 1, 'wdata')
                res_ = {}
                for pfx in ('M_', 'P_'):
                    if op == 'create_seek_hold':
                        # write, seek strictly beyond the end, write again: the gap reads as zeros on both backends
                        seq = ['hopen h%s %s%s create' % (pfx, pfx, v), 'hwrite h%s $wdata' % pfx, 'hseek h%s start 3' % pfx, 'hwrite h%s $wdata' % pfx,
                               'hflush h%s' % pfx, 'read %s%s 6' % (pfx, v), 'hdrop h%s' % pfx]
                    else:
                        seq = ['hopen h%s %s%s %s' % (pfx, pfx, v, 'create' if op == 'create_hold' else 'append'), 'metadata %s%s' % (pfx, v), 'read %s%s 3' % (pfx, v), 'hwrite h%s $wdata' % pfx,
                               'hflush h%s' % pfx, 'read %s%s 3' % (pfx, v), 'hdrop h%s' % pfx]
                    outs_ = []
                    for ln in seq:
                        if ln.split()[0] in ('hwrite', 'hflush', 'hseek') and ('h' + pfx) not in sr.handles:
                            continue
                        sr.do(ln)
                        outs_.append((ln.split()[0], sr.last))
                    res_[pfx] = outs_
                if len(res_['M_']) != len(res_['P_']):
                    findings.append(make_finding('C02', key + '|open_handle:success_differs', '%s on %s succeeds on one backend only' % (op, v), sr))
                else:
                    for (n1, o1), (n2, o2) in zip(res_['M_'], res_['P_']):
                        mres = match(canon(o1), canon(o2))
                        if mres is False or (mres is not True and ex.check(mres, 'held') is not None):
                            findings.append(make_finding('C02', key + '|open_handle:%s_differs' % n1,
                                                         'while a %s handle on %s is open, %s returns %s on MemoryFS and %s on PhysicalFS' % (op.split('_')[0], v, n1, o1.brief(), o2.brief()), sr))
                            break
                compare_snapshots(sr, u, key, findings, 'state_after')
                return findings
            if op in ('rewrite_then_remove', 'recreate_dir_cycle'):
                # state carried between calls: the same short history on both backends, outcome by outcome, then the trees
                sr.syms['w1'] = sym_content(ex, 1, 'w1')
                par = u.parent(v) if v != 'R' else 'R'
                if op == 'rewrite_then_remove':
                    seq = ['write {p}%s $w1' % v, 'write {p}%s $w1' % v, 'append {p}%s $w1' % v, 'remove_file {p}%s' % v] + (['remove_dir {p}%s' % par] if par != 'R' else [])
                else:
                    seq = ['create_dir {p}%s' % v, 'remove_dir {p}%s' % v, 'create_dir {p}%s' % v, 'write {p}%s $w1' % v, 'remove_dir {p}%s' % v]
                res_ = {}
                for pfx in ('M_', 'P_'):
                    outs_ = []
                    for ln in seq:
                        sr.do(ln.replace('{p}', pfx))
                        outs_.append((ln.split()[0], sr.last))
                    res_[pfx] = outs_
                for k_, ((n1, o1), (n2, o2)) in enumerate(zip(res_['M_'], res_['P_'])):
                    if o1.tag in ('panic', 'deadlock') or o2.tag in ('panic', 'deadlock'):
                        findings.append(make_finding('C13', key + '|step%d:panic' % k_, '%s panics in a short history' % n1, sr))
                        return findings
                    if o1.ok != o2.ok:
                        findings.append(make_finding('C02', key + '|step%d:%s:success_differs' % (k_, n1),
                                                     'step %d (%s) of the history returns %s on MemoryFS and %s on PhysicalFS' % (k_, n1, o1.brief(), o2.brief()), sr))
                        break
                compare_snapshots(sr, u, key, findings, 'state_after')
                return findings
            outs = []
            for pfx in ('M_', 'P_'):
                if dst is not None:
                    line = '%s %s%s %s%s' % (op, pfx, v, pfx, dst)
                elif op == 'hopen':
                    line = 'hopen h%s %s%s open' % (pfx, pfx, v)
                else:
                    line, _ = op_line(op, pfx + v, sr, ex, 1) if pfx == 'M_' else (None, None)
                    if pfx == 'P_':
                        line = outs[0][0].replace('M_' + v, 'P_' + v, 1)
                sr.do(line)
                outs.append((line, sr.last))
            om, op_ = outs[0][1], outs[1][1]
            for who, o in (('MemoryFS', om), ('PhysicalFS', op_)):
                if o.tag in ('panic', 'deadlock'):
                    findings.append(make_finding('C13', key + '|panic:%s:%s' % (who, o.where), '%s on %s panics on %s: %s' % (op, v, who, o.msg), sr))
                    return findings
            if om.ok != op_.ok:
                findings.append(make_finding('C02', key + '|success_differs:mem=%s,phys=%s' % (om.brief(), op_.brief()),
                                             '%s on %s (%s): MemoryFS returns %s, PhysicalFS returns %s' % (op, v, target_class(t, v), om.brief(), op_.brief()), sr))
            elif not om.ok:
                try:
                    exp = contract(t, op if op != 'hopen' else 'open', v) if dst is None else None
                except ValueError:
                    exp = None
                if exp is not None and exp.status == 'err' and exp.errclass is not None and cls(om.kind) != cls(op_.kind):
                    findings.append(make_finding('C02', key + '|class_differs:mem=%s,phys=%s' % (cls(om.kind), cls(op_.kind)),
                                                 '%s on %s: %s; MemoryFS reports %s, PhysicalFS reports %s' % (op, v, exp.why, om.kind, op_.kind), sr))
            else:
                mres = match(canon(om), canon(op_))
                if op in ('read_dir',):
                    mres = True          # listings are compared through the snapshot (paths differ by instance only)
                if mres is False or (mres is not True and ex.check(mres, 'result') is not None):
                    findings.append(make_finding('C02', key + '|result_differs', '%s on %s returns different data on the two backends' % (op, v), sr))
            compare_snapshots(sr, u, key, findings, 'state_after')
            if op in ('copy_file', 'copy_dir') and om.ok and op_.ok and not findings and t.kind(v) == 'file':
                # state carried between calls: a later write session on the source must leave the copy alone on both backends
                sr.syms['more'] = sym_content(ex, 1, 'more')
                for pfx in ('M_', 'P_'):
                    sr.do('append %s%s $more' % (pfx, v))
                compare_snapshots(sr, u, key + '|then_append_to_source', findings, 'state_after')
            if not res.samples:
                res.samples.append({'state': shape_str(shape), 'call': outs[0][0], 'memory': om.brief(), 'physical@OSM': op_.brief()})
            return findings
        fs, inc = explore(prog, h, res.stats)
        res.findings += fs
        res.inconclusive += inc
        res.evals += 1
    return res
