"""File handles (C14, C04, reader part of C13/C15).

Reader: the real ReadableFile (reached through open_file of the configuration) is driven by every
script of k steps from {read(n), seek(Start|Current|End, symbolic 64-bit offset)} in lock-step
with a reference cursor over the file's symbolic bytes (std::io::Cursor contract: seeking before
the start is an error, past the end is allowed, reads there return 0).

Writer: sessions of create_file/append_file + {write(symbolic bytes), seek, flush} + drop against
a reference growable cursor (zero-fill); then fresh reads with several buffer sizes, metadata
len, read_to_string, copy_file/move_file."""
import z3

from mirsym.engine import explore
from mirsym.values import *   # noqa
from mirsym import models
from .core import *           # noqa
from .framework import CaseResult, make_finding
from .script import ScriptRunner, hx
from .onestep import build_config

U64 = (1 << 64) - 1


def ref_seek(ex, length, pos, variant, off):
    """reference cursor seek: returns new position (int/BV64) or None for an error"""
    if variant == 'Start':
        return off
    base = length if variant == 'End' else pos
    B, O = bv(base, 64), bv(off, 64)
    if ex.branch(O >= 0):
        if ex.branch(z3.Not(z3.BVAddNoOverflow(B, O, False))):
            return None
        return z3.simplify(B + O)
    if ex.branch(z3.ULT(B, -O)):
        return None
    return z3.simplify(B + O)


def ref_read(ex, content, pos, n):
    """-> (count, bytes, newpos)"""
    ln = len(content)
    p = ex.concretize(pos, ln)      # None: beyond the end
    if p is None:
        return 0, S(), pos
    k = min(n, ln - p)
    return k, S(content[p:p + k]), p + k


def config_lines(sr, cfg):
    """create configuration with a single file var `f` (and `g` as copy target); returns content placement fn"""
    ex = sr.ex
    if cfg == 'mem':
        sr.do('fs R mem')
    elif cfg == 'alt':
        sr.do('fs U mem')
        sr.do('join uP U %s' % hx(b'p'))
        sr.do('create_dir uP')
        sr.do('fs R alt uP')
    elif cfg == 'phys':
        sr.do('fs R phys')
    elif cfg == 'alt_phys':
        sr.do('fs U phys')
        sr.do('join uP U %s' % hx(b'p'))
        sr.do('create_dir uP')
        sr.do('fs R alt uP')
    elif cfg in ('ovl_upper', 'ovl_lower'):
        sr.do('fs L0 mem')
        sr.do('fs L1 mem')
        sr.do('fs R ovl L0 L1')
    elif cfg == 'ovl3':
        # three layers; the file lives in both read-only layers with different bytes: layer 1 shadows layer 2
        sr.do('fs L0 mem')
        sr.do('fs L1 mem')
        sr.do('fs L2 mem')
        sr.do('join deepf L2 %s' % hx(b'f'))
        sr.syms['deep'] = sym_content(ex, 1, 'deep')
        sr.do('write deepf $deep')
        sr.do('fs R ovl L0 L1 L2')
    else:
        raise ValueError(cfg)
    sr.do('join f R %s' % hx(b'f'))
    sr.do('join g R %s' % hx(b'g'))
    if cfg in ('ovl_lower', 'ovl3'):
        sr.do('join lf L1 %s' % hx(b'f'))
        return 'lf'
    return 'f'


def run_reader_case(prog, params):
    res = CaseResult()
    res.states = 1
    clen, k, cfg = params['clen'], params['k'], params['cfg']
    release = params.get('release', False)
    sizes = params.get('sizes', [0, 1, 3])
    prop = params.get('prop', 'C14')

    def h(ex):
        findings = []
        sr = ScriptRunner(ex)
        target = config_lines(sr, cfg)
        sr.syms['content'] = sym_content(ex, clen, 'content')
        content = sr.syms['content']
        r = sr.do('write %s $content' % target)
        if r != 'ok':
            raise Unmodelled('reader set-up failed: ' + r)
        r = sr.do('hopen h f open')
        if r != 'ok':
            findings.append(make_finding(prop, '%s|open_existing_file_fails' % cfg, 'open_file on an existing file: ' + r, sr))
            return findings
        pos = 0
        trace = []
        for step in range(k):
            if step == 0 and params.get('first') is not None:
                kind = params['first']
            elif step == 1 and params.get('second') is not None:
                kind = params['second']
            else:
                kind = ex.choose(5 if params.get('readall', True) else 4, 'kind')
            if kind == 4:
                # read_to_end from the current position: exactly the remaining bytes, cursor at the end afterwards
                out = sr.do('hreadall h')
                o = sr.last
                trace.append('read_to_end()')
                key = '%s|reader|read_to_end%s' % (cfg, '' if step == 0 else '|after:' + trace[-2].split('(')[0])
                if o.tag == 'panic':
                    findings.append(make_finding('C13', key + '|panic:%s' % o.where, 'read_to_end after %s panics: %s' % (trace[:-1], o.msg), sr,
                                                 profile='release' if release else 'dev'))
                    return findings
                if not o.ok:
                    findings.append(make_finding(prop, key + '|unexpected_err', 'read_to_end fails: %s' % o.brief(), sr))
                    return findings
                p_ = ex.concretize(pos, clen)
                want = S(content[p_:]) if p_ is not None else S()
                gk, gbuf = o.value
                if gk != len(want) or len(gbuf) != len(want):
                    findings.append(make_finding(prop, key + '|wrong_count', 'read_to_end returned %s bytes, %d remain after the cursor' % (gk, len(want)), sr))
                    return findings
                m = ex.check(seq_eq(gbuf, want), 'read_to_end data')
                if m is not None:
                    findings.append(make_finding(prop, key + '|wrong_bytes', 'read_to_end returned wrong bytes', sr, m))
                    return findings
                if p_ is not None:
                    pos = clen
            elif kind == 0:
                n = sizes[ex.choose(len(sizes), 'size')]
                out = sr.do('hread h %d' % n)
                o = sr.last
                trace.append('read(%d)' % n)
                key = '%s|reader|read%s' % (cfg, '' if step == 0 else '|after:' + trace[-2].split('(')[0])
                if o.tag == 'panic':
                    findings.append(make_finding('C13', key + '|panic:%s' % o.where, 'read(%d) after %s panics: %s' % (n, trace[:-1], o.msg), sr,
                                                 profile='release' if release else 'dev'))
                    findings.append(make_finding(prop, key + '|panic', 'read(%d) after %s panics instead of returning data or 0: %s' % (n, trace[:-1], o.msg), sr,
                                                 profile='release' if release else 'dev'))
                    return findings
                cnt, data, npos = ref_read(ex, content, pos, n)
                if not o.ok:
                    findings.append(make_finding(prop, key + '|unexpected_err', 'read(%d) fails: %s' % (n, o.brief()), sr))
                    return findings
                gk, gbuf = o.value
                if gk != cnt:
                    findings.append(make_finding(prop, key + '|wrong_count', 'read(%d) returned %s bytes, a cursor returns %d' % (n, gk, cnt), sr))
                    return findings
                m = ex.check(seq_eq(gbuf[:cnt], data), 'read data')
                if m is not None:
                    findings.append(make_finding(prop, key + '|wrong_bytes', 'read(%d) returned wrong bytes' % n, sr, m))
                    return findings
                pos = npos
            else:
                variant = ['Start', 'Current', 'End'][kind - 1]
                name = ('u' if variant == 'Start' else 'i') + 'off%d' % step
                sr.syms[name] = ex.fresh(name, 64)
                off = sr.syms[name]
                out = sr.do('hseek h %s $%s' % ({'Start': 'start', 'Current': 'cur', 'End': 'end'}[variant], name))
                o = sr.last
                trace.append('seek(%s)' % variant)
                key = '%s|reader|seek_%s' % (cfg, variant.lower())
                if o.tag == 'panic':
                    findings.append(make_finding('C13', key + '|panic:%s' % o.where, 'seek(%s, off) panics: %s' % (variant, o.msg), sr,
                                                 profile='release' if release else 'dev'))
                    findings.append(make_finding(prop, key + '|panic', 'seek(%s, off) panics: %s' % (variant, o.msg), sr,
                                                 profile='release' if release else 'dev'))
                    return findings
                exp = ref_seek(ex, clen, pos, variant, off)
                if exp is None:
                    if o.ok:
                        findings.append(make_finding(prop, key + '|negative_or_overflowing_seek_accepted',
                                                     'seek(%s) to a position before the start (or beyond u64) returned Ok' % variant, sr))
                        return findings
                else:
                    if not o.ok:
                        findings.append(make_finding(prop, key + '|valid_seek_rejected', 'seek(%s) to a valid position fails: %s' % (variant, o.brief()), sr))
                        return findings
                    m = ex.check(bv(o.value, 64) == bv(exp, 64), 'seek result')
                    if m is not None:
                        findings.append(make_finding(prop, key + '|wrong_position', 'seek(%s) returned a wrong position' % variant, sr, m))
                        return findings
                    pos = exp
        if not res.samples:
            res.samples.append({'config': cfg, 'content_len': clen, 'script': trace, 'path_condition_size': len(ex.pc)})
        return findings
    fs, inc = explore(prog, h, res.stats, release=release)
    res.findings += fs
    res.inconclusive += inc
    res.evals = res.stats.paths
    return res


# ------------------------------------------------------------------------------------------ writer sessions

class RefCursor:
    """reference growable cursor"""

    def __init__(self, data, pos):
        self.data, self.pos = tuple(data), pos

    def write(self, ex, buf, gap):
        p = ex.concretize(self.pos, len(self.data) + gap)
        if p is None:
            raise Infeasible()
        d = self.data
        if p > len(d):
            d = d + (0,) * (p - len(d))
        self.data = d[:p] + tuple(buf) + d[p + len(buf):]
        self.pos = p + len(buf)


def run_writer_case(prog, params):
    res = CaseResult()
    res.states = 1
    cfg, k, nsess = params['cfg'], params['k'], params['sessions']
    modes = params['modes']          # tuple of 'create'/'append' per session
    prop = params.get('prop', 'C04')
    GAP = 4
    pre = params.get('pre', 2)       # bytes already in the file before the first session (append) / lower layer

    def h(ex):
        findings = []
        sr = ScriptRunner(ex)
        target = config_lines(sr, cfg)
        cur = None            # abstract file content (tuple) or None if absent
        if pre is not None:
            sr.syms['pre'] = sym_content(ex, pre, 'pre')
            if sr.do('write %s $pre' % target) != 'ok':
                raise Unmodelled('writer set-up failed')
            cur = tuple(sr.syms['pre'])
        elif cfg == 'ovl3':
            cur = tuple(sr.syms['deep'])          # nothing in layer 1: the view shows the bottom layer's file
        tag = '%s|writer' % cfg
        for si, mode in enumerate(modes):
            out = sr.do('hopen w%d f %s' % (si, mode))
            o = sr.last
            if mode == 'append' and cur is None:
                if o.ok:
                    findings.append(make_finding(prop, tag + '|append_creates', 'append_file on a missing file succeeded', sr))
                return findings
            if not o.ok:
                findings.append(make_finding(prop, tag + '|open_%s_fails:%s' % (mode, o.brief()), '%s_file fails: %s' % (mode, o), sr))
                return findings
            ref = RefCursor((), 0) if mode == 'create' else RefCursor(cur, len(cur))
            published = () if mode == 'create' else cur       # create truncates immediately
            # an append handle of PhysicalFS is an O_APPEND file: seeks do not move its write position (by design; the
            # statement's exclusions for C02/C14 name it). Its sessions consist of writes and flushes only.
            oappend = 'phys' in cfg and mode == 'append'
            for step in range(k):
                if si == 0 and step == 0 and params.get('first') is not None and not oappend:
                    kind = params['first']
                else:
                    kind = ex.choose(5, 'wkind') if not oappend else (0, 4)[ex.choose(2, 'wkind')]
                if kind == 0:
                    n = 1 + ex.choose(2, 'wlen')
                    name = 'wd%d_%d' % (si, step)
                    sr.syms[name] = sym_content(ex, n, name)
                    sr.do('hwrite w%d $%s' % (si, name))
                    o = sr.last
                    if o.tag == 'panic':
                        findings.append(make_finding('C13', tag + '|write_panic:%s' % o.where, 'write panics: %s' % o.msg, sr))
                        return findings
                    ref.write(ex, sr.syms[name], GAP)
                    if not o.ok or o.value != n:
                        findings.append(make_finding('C14', tag + '|write_result', 'write of %d bytes returned %s' % (n, o), sr))
                        return findings
                elif kind in (1, 2, 3):
                    variant = ['Start', 'Current', 'End'][kind - 1]
                    name = ('u' if variant == 'Start' else 'i') + 'woff%d_%d' % (si, step)
                    sr.syms[name] = ex.fresh(name, 64)
                    off = sr.syms[name]
                    exp = ref_seek(ex, len(ref.data), ref.pos, variant, off)
                    if exp is not None:
                        # bound: the write position stays within GAP bytes of the end
                        ex.assume(z3.ULE(bv(exp, 64), z3.BitVecVal(len(ref.data) + GAP, 64)))
                    sr.do('hseek w%d %s $%s' % (si, {'Start': 'start', 'Current': 'cur', 'End': 'end'}[variant], name))
                    o = sr.last
                    if o.tag == 'panic':
                        findings.append(make_finding('C13', tag + '|seek_panic:%s' % o.where, 'writer seek panics: %s' % o.msg, sr))
                        return findings
                    if (exp is None) != (not o.ok):
                        findings.append(make_finding('C14', tag + '|seek_%s_result' % variant.lower(),
                                                     'writer seek(%s): %s, a cursor %s' % (variant, o.brief(), 'fails' if exp is None else 'succeeds'), sr))
                        return findings
                    if exp is not None:
                        m = ex.check(bv(o.value, 64) == bv(exp, 64), 'writer seek result')
                        if m is not None:
                            findings.append(make_finding('C14', tag + '|seek_%s_position' % variant.lower(), 'writer seek(%s) returned a wrong position' % variant, sr, m))
                            return findings
                        ref.pos = exp
                else:
                    sr.do('hflush w%d' % si)
                    o = sr.last
                    if not o.ok:
                        findings.append(make_finding('C14', tag + '|flush_fails', 'flush fails: %s' % o, sr))
                        return findings
                    published = ref.data
                    # data flushed through a still-open handle is visible to readers opened afterwards
                    if not check_content(sr, ex, 'f', published, findings, prop, tag + '|after_flush'):
                        return findings
            sr.do('hdrop w%d' % si)
            if not sr.last.ok:
                findings.append(make_finding('C13', tag + '|drop_panics', 'dropping the write handle panics: %s' % sr.last.msg, sr))
                return findings
            cur = ref.data
            if not check_content(sr, ex, 'f', cur, findings, prop, tag + '|after_%s_session' % mode):
                return findings
        # transfers
        xfer = params['xfer'] if params.get('xfer') is not None else ex.choose(3, 'xfer')
        if params.get('alias_copy') and cur is not None and cfg in ('ovl_lower', 'ovl3'):
            # copy the overlay's view of f (served by a lower layer or by the upper copy) onto the same relative path
            # addressed directly in the upper layer: afterwards both names hold the bytes of the view
            sr.do('join uf L0 %s' % hx(b'f'))
            sr.do('exists uf')
            if sr.last.ok and sr.last.value is False:
                sr.do('copy_file f uf')
                if sr.last.ok:
                    if not check_content(sr, ex, 'uf', cur, findings, prop, tag + '|alias_copy_dest'):
                        return findings
                    if not check_content(sr, ex, 'f', cur, findings, prop, tag + '|alias_copy_view'):
                        return findings
            return findings
        if xfer and cur is not None:
            op = ['copy_file', 'move_file'][xfer - 1]
            sr.do('%s f g' % op)
            o = sr.last
            if not o.ok:
                findings.append(make_finding(prop, tag + '|%s_fails' % op, '%s to a fresh destination fails: %s' % (op, o), sr))
                return findings
            if not check_content(sr, ex, 'g', cur, findings, prop, tag + '|%s_dest' % op):
                return findings
            if op == 'copy_file':
                if not check_content(sr, ex, 'f', cur, findings, prop, tag + '|copy_file_source'):
                    return findings
                # the copy is independent of its source: a later write session on one must not show through the other
                sr.syms['more'] = sym_content(ex, 1, 'more')
                if sr.do('append f $more') == 'ok':
                    if not check_content(sr, ex, 'g', cur, findings, prop, tag + '|copy_changes_with_source'):
                        return findings
                    if not check_content(sr, ex, 'f', tuple(cur) + tuple(sr.syms['more']), findings, prop, tag + '|append_after_copy'):
                        return findings
            else:
                sr.do('exists f')
                if sr.last.ok and sr.last.value is not False:
                    findings.append(make_finding(prop, tag + '|move_file_source_remains', 'move_file left the source behind', sr))
        if not res.samples:
            res.samples.append({'config': cfg, 'sessions': list(modes), 'script': [l for l, _ in sr.log if l.startswith('h')][:12],
                                'path_condition_size': len(ex.pc)})
        return findings
    fs, inc = explore(prog, h, res.stats)
    res.findings += fs
    res.inconclusive += inc
    res.evals = res.stats.paths
    return res


def check_content(sr, ex, var, exp, findings, prop, key):
    """fresh read (two buffer sizes), metadata len; returns False when a finding was added"""
    for chunk in (1, 3):
        sr.do('read %s %d' % (var, chunk))
        o = sr.last
        if o.tag == 'panic':
            findings.append(make_finding('C13', key + '|read_panic:%s' % o.where, 'fresh read panics: %s' % o.msg, sr))
            return False
        if not o.ok:
            findings.append(make_finding(prop, key + '|unreadable', 'fresh read fails: %s' % o, sr))
            return False
        if len(o.value) != len(exp):
            findings.append(make_finding(prop, key + '|wrong_length', 'fresh read (buffer %d) returns %d bytes, expected %d' % (chunk, len(o.value), len(exp)), sr))
            return False
        m = ex.check(seq_eq(o.value, exp), 'content')
        if m is not None:
            findings.append(make_finding(prop, key + '|wrong_bytes', 'fresh read (buffer %d) returns wrong bytes' % chunk, sr, m))
            return False
    if len(exp) >= 1:
        # a header read followed by read_to_end / read_to_string: the remainder, not the whole file again
        hn = 'rb%d' % len(sr.log)
        sr.do('hopen %s %s open' % (hn, var))
        if sr.last.ok:
            sr.do('hread %s 1' % hn)
            sr.do('hreadall %s' % hn)
            o = sr.last
            if o.tag == 'panic':
                findings.append(make_finding('C13', key + '|read_to_end_panic:%s' % o.where, 'read_to_end panics: %s' % o.msg, sr))
                return False
            if o.ok:
                gk, gbuf = o.value
                if gk != len(exp) - 1 or len(gbuf) != len(exp) - 1:
                    findings.append(make_finding(prop, key + '|read_to_end_wrong_length', 'read(1) then read_to_end returns %s more bytes, expected %d' % (gk, len(exp) - 1), sr))
                    return False
                m = ex.check(seq_eq(gbuf, S(exp[1:])), 'read_to_end content')
                if m is not None:
                    findings.append(make_finding(prop, key + '|read_to_end_wrong_bytes', 'read(1) then read_to_end returns wrong bytes', sr, m))
                    return False
            sr.do('hdrop %s' % hn)
    sr.do('metadata %s' % var)
    o = sr.last
    if not o.ok or o.value[:2] != ('file', len(exp)):
        findings.append(make_finding(prop, key + '|metadata_len', 'metadata reports %s, expected file of %d bytes' % (o.value[:2] if o.ok else o, len(exp)), sr))
        return False
    return True


def run_lifecycle_case(prog, params):
    """C13: handles used after their file was removed (or replaced) must not panic"""
    res = CaseResult()
    res.states = 1
    cfg = params['cfg']

    def h(ex):
        findings = []
        sr = ScriptRunner(ex)
        config_lines(sr, cfg)
        sr.do('join d R %s' % hx(b'd'))
        sr.do('create_dir d')
        sr.do('join df d %s' % hx(b'f'))
        sr.syms['pre'] = sym_content(ex, 2, 'pre')
        sr.do('write df $pre')
        mode = ['create', 'append', 'open'][ex.choose(3, 'mode')]
        sr.do('hopen h df %s' % mode)
        if not sr.last.ok:
            raise Unmodelled('lifecycle set-up: ' + repr(sr.last))
        if mode != 'open' and ex.choose(2, 'w'):
            sr.syms['wd'] = sym_content(ex, 1, 'wd')
            sr.do('hwrite h $wd')
        how = ex.choose(4, 'how')
        steps = [['remove_file df'], ['remove_dir_all d'], ['remove_file df', 'create_dir df'], ['remove_file df', 'remove_dir d']][how]
        for s_ in steps:
            sr.do(s_)
        tail = ['hflush h', 'hdrop h'] if mode != 'open' else ['hread h 2', 'hseek h end 0', 'hread h 1', 'hdrop h']
        seen = {}
        # observers first (their answers are used below), then mutators on whatever the late flush left behind
        for s_ in tail + ['exists df', 'read_dir d', 'walk_dir R', 'metadata df', 'read df 2', 'remove_file df', 'create_dir d', 'write df 00', 'remove_dir_all d']:
            sr.do(s_)
            o = sr.last
            seen[s_.split()[0]] = o
            if o is not None and o.tag in ('panic', 'deadlock'):
                findings.append(make_finding('C13', '%s|handle_after_removal|%s|%s:%s' % (cfg, mode, s_.split()[0], o.where or '?'),
                                             '`%s` on a %s handle after `%s` %ss: %s' % (s_, mode, '; '.join(steps), o.tag, o.msg), sr))
                break
        if cfg.startswith('ovl') and how in (0, 1, 3) and 'C10' in params.get('props', ('C13',)):
            # removed through the overlay: the entry stays absent from every observer, whatever a late flush of an old
            # handle puts into the upper layer
            ex_, md, rd = seen.get('exists'), seen.get('metadata'), seen.get('read')
            if ex_ is not None and md is not None and rd is not None:
                vis = [n for n, o in (('exists', ex_), ('metadata', md), ('read', rd)) if o.ok and o.value is not False]
                if vis:
                    findings.append(make_finding('C10', '%s|late_flush_after_removal|%s|visible_through:%s' % (cfg, mode, '+'.join(vis)),
                                                 'after `%s` the removed file is visible again through %s once the old %s handle is flushed/dropped' % ('; '.join(steps), ', '.join(vis), mode), sr))
        if 'C05' in params.get('props', ()) and not findings:
            # whatever the old handle did to the path: the observers must tell one story about it
            ex_, md, rd, ls = seen.get('exists'), seen.get('metadata'), seen.get('read'), seen.get('read_dir')
            if ex_ is not None and md is not None and rd is not None and ex_.ok:
                key5 = '%s|handle_after_removal|%s|how=%d' % (cfg, mode, how)
                if ex_.value is False and (md.ok or rd.ok):
                    findings.append(make_finding('C05', key5 + '|absent_but_%s' % ('metadata' if md.ok else 'readable'),
                                                 'exists() is false, but %s succeeds on the same path' % ('metadata' if md.ok else 'open_file+read'), sr))
                elif ex_.value is True and not md.ok and md.tag == 'err':
                    findings.append(make_finding('C05', key5 + '|exists_without_metadata', 'exists() is true, but metadata fails', sr))
                elif ls is not None and ls.ok:
                    mine = sr.w.as_str(sr.paths['df'])
                    listed = any(S(x).is_concrete() and bytes(x) == bytes(mine) for x in ls.value)
                    if listed != (ex_.value is True):
                        findings.append(make_finding('C05', key5 + '|listing_vs_exists', 'exists() is %s, but the parent %s the name' % (ex_.value, 'lists' if listed else 'does not list'), sr))
        if not res.samples:
            res.samples.append({'config': cfg, 'script': [l for l, _ in sr.log][-8:]})
        return findings
    fs, inc = explore(prog, h, res.stats)
    res.findings += fs
    res.inconclusive += inc
    res.evals = res.stats.paths
    return res


def run_hostile_dir_case(prog, params):
    """C13: directory content found on disk (a non-UTF-8 file name created behind the library's back) must not
    make PhysicalFS panic"""
    res = CaseResult()
    res.states = 1
    name = params['name']

    def h(ex):
        findings = []
        sr = ScriptRunner(ex)
        sr.do('fs R phys')
        sr.do('join d R %s' % hx(b'd'))
        sr.do('create_dir d')
        kind = params.get('kind', 'file')
        sr.do({'file': 'rawfile', 'socket': 'rawsock', 'dangling_link': 'rawlink'}[kind] + ' R %s' % hx(name))
        lines = ['read_dir R', 'walk_dir R', 'exists d', 'read_dir d', 'remove_dir_all d', 'remove_dir_all R']
        if kind != 'file':
            sr.do('join s R %s' % hx(name))
            lines = ['exists s', 'metadata s', 'is_file s', 'is_dir s', 'read_dir R', 'create_dir s', 'create_dir_all s', 'walk_dir R', 'remove_dir_all d', 'remove_dir_all R']
        what = {'file': 'a file whose name is %r' % name, 'socket': 'a unix socket', 'dangling_link': 'a dangling symbolic link'}[kind]
        for line in lines:
            sr.do(line)
            o = sr.last
            if o is not None and o.tag in ('panic', 'deadlock'):
                findings.append(make_finding('C13', 'phys|hostile_%s|%s|panic:%s' % ('name' if kind == 'file' else kind, line.split()[0], o.where or '?'),
                                             '`%s` panics when the directory holds %s: %s' % (line, what, o.msg), sr))
                break
            if line == 'create_dir s' and 'C12' in params.get('props', ()) and o is not None and o.tag == 'err' and o.kind not in ('FileExists', 'DirectoryExists'):
                findings.append(make_finding('C12', 'phys|hostile_%s|create_dir|misclassified:%s' % (kind, o.kind),
                                             'create_dir on a name occupied by %s reports %s, not file-exists' % (what, o.kind), sr))
        if not res.samples:
            res.samples.append({'raw_name': repr(name), 'script': [l for l, _ in sr.log]})
        return findings
    fs, inc = explore(prog, h, res.stats)
    res.findings += fs
    res.inconclusive += inc
    res.evals = res.stats.paths
    return res
