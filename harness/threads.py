"""C16 / C17: concurrent use of one filesystem, explored at lock-acquisition granularity.

Each engine thread runs a list of API calls (script lines) on the real MIR and yields immediately
before every RwLock::read/write; the scheduler then picks the next runnable thread — every pick is
an explored decision, so all interleavings at lock granularity are covered (DESIGN §2.6).  All
state shared between threads of MemoryFS lives behind that one lock, so nothing is lost by not
interleaving between acquisitions (data-race freedom of RwLock; stated as an assumption).

C16 oracle: results and final snapshot must equal those of some sequential execution of the same
calls that respects program order (the sequential runs are executed in the same engine path on
fresh filesystems with the same symbolic inputs; equality of bytes is a solver query)."""
import itertools
import threading
import z3

from mirsym.engine import explore
from mirsym.values import *   # noqa
from .core import *           # noqa
from .api import Outcome
from .framework import CaseResult, make_finding, Finding
from .script import ScriptRunner, hx


class _Abort(BaseException):
    pass


class Sched:
    """cooperative scheduler: exactly one engine thread runs at a time"""

    def __init__(self, ex, n, preemption_bound=None):
        self.ex, self.n = ex, n
        self.bound = preemption_bound     # None: every interleaving; k: at most k preemptive switches (CHESS-style)
        self.preemptions = 0
        self.cv = threading.Condition()
        self.turn = 'main'
        self.done = [False] * n
        self.want = [None] * n
        self.started = [False] * n
        self.error = None
        self.abort = False
        self.schedule = []          # sequence of (thread, label) switch points actually taken
        self.deadlock = False
        self.recursive_read = False

    # ---- called on the engine thread that currently holds the turn
    def can_take(self, w):
        if w is None:
            return True
        lock, mode = w
        if mode == 'w':
            return lock.writer is None and lock.readers == 0
        return lock.writer is None

    def pick(self, cur):
        runnable = [j for j in range(self.n) if not self.done[j] and self.can_take(self.want[j])]
        if not runnable:
            if all(self.done):
                return 'main'
            self.deadlock = True
            self.abort = True
            return 'main'
        if self.bound is not None and cur in runnable and self.preemptions >= self.bound:
            return cur                      # preemption budget used up: the running thread continues
        k = self.ex.choose(len(runnable), 'schedule')
        nxt = runnable[k]
        if cur in runnable and nxt != cur:
            self.preemptions += 1
        return nxt

    def switch_from(self, cur):
        """give the turn to the scheduler's pick; returns when `cur` has the turn again"""
        nxt = self.pick(cur)
        self.schedule.append(nxt)
        if nxt == cur:
            return
        with self.cv:
            self.turn = nxt
            self.cv.notify_all()
            if cur != 'main' and self.done[cur]:
                return
            while self.turn != cur:
                self.cv.wait()
            if self.abort and cur != 'main':
                raise _Abort()

    def yield_point(self, ex, lock, mode):
        i = ex.thread
        if i == 'main' or i is None:
            return
        self.want[i] = (lock, mode)
        if mode == 'r' and i in lock.rowners and any(self.want[j] == (lock, 'w') for j in range(self.n) if j != i):
            # std's RwLock prefers waiting writers: a thread that re-acquires a read lock it already holds while
            # another thread is queued for the write lock blocks behind that writer, which waits for the first guard
            self.deadlock = True
            self.recursive_read = True
            self.abort = True
            raise _Abort()
        self.switch_from(i)
        self.want[i] = None
        ex.thread = i

    def body(self, i, fn):
        with self.cv:
            while self.turn != i:
                self.cv.wait()
        try:
            if self.abort:
                raise _Abort()
            self.ex.thread = i
            fn()
        except _Abort:
            pass
        except BaseException as e:       # Panic escapes only through guard(); everything else aborts the path
            if self.error is None:
                self.error = e
            self.abort = True
        self.done[i] = True
        self.want[i] = None
        # hand over
        if self.abort:
            nxt = next((j for j in range(self.n) if not self.done[j]), 'main')
            with self.cv:
                self.turn = nxt
                self.cv.notify_all()
        else:
            self.ex.thread = i
            nxt = self.pick(i)
            self.schedule.append(nxt)
            with self.cv:
                self.turn = nxt
                self.cv.notify_all()

    def run(self, fns):
        ths = [threading.Thread(target=self.body, args=(i, fn), daemon=True) for i, fn in enumerate(fns)]
        for t in ths:
            t.start()
        self.ex.hooks['sched'] = self.yield_point
        saved = self.ex.thread
        self.ex.thread = 'main'
        try:
            nxt = self.pick('main')
            self.schedule.append(nxt)
            with self.cv:
                self.turn = nxt
                self.cv.notify_all()
                while self.turn != 'main':
                    self.cv.wait()
            # make sure every thread has finished (abort path)
            while not all(self.done):
                nxt = next(j for j in range(self.n) if not self.done[j])
                with self.cv:
                    self.abort = True
                    self.turn = nxt
                    self.cv.notify_all()
                    while self.turn != 'main':
                        self.cv.wait()
        finally:
            self.ex.hooks.pop('sched', None)
            self.ex.thread = saved
        for t in ths:
            t.join(5)
        if self.error is not None:
            raise self.error


def canon(o):
    """comparable form of an Outcome: (tag, kind, payload)"""
    if o is None:
        return ('none',)
    if o.tag != 'ok':
        return (o.tag, None)      # which error kind a failing call reports is not part of the comparison
    v = o.value
    if isinstance(v, bool):
        return ('ok', 'bool', v)
    if type(v) is S:
        return ('ok', 'bytes', v)
    if isinstance(v, tuple) and len(v) >= 2 and isinstance(v[0], str):
        return ('ok', 'meta', v[:2])
    if isinstance(v, list):
        return ('ok', 'list', tuple(sorted(bytes(x) if S(x).is_concrete() else repr(x) for x in v if not isinstance(x, Outcome))))
    if type(v) is int:
        return ('ok', 'int', v)
    return ('ok', 'unit')


def match(a, b):
    """False | True | z3 condition"""
    if a[:2] != b[:2]:
        return False
    if a[0] != 'ok' or len(a) < 3:
        return True
    if a[1] == 'bytes':
        return seq_eq(a[2], b[2])
    return a[2] == b[2]


def snap_key(sr, u, prefix):
    snap = snapshot(sr, u, prefix, with_listing=False, chunk=3)
    out = {}
    for v in u.vars:
        o = snap[v]
        k = observed_kind(o)
        out[v] = (k, o.content if k == 'file' and not is_err(o.content) else None)
    return out, snap


def snap_match(a, b, u):
    cs = []
    for v in u.vars:
        if a[v][0] != b[v][0]:
            return False
        if a[v][0] == 'file':
            if a[v][1] is None or b[v][1] is None:
                if a[v][1] is not b[v][1]:
                    return False
                continue
            cs.append(seq_eq(a[v][1], b[v][1]))
    return zand(cs)


def interleavings(progs):
    """all merges of the threads' op lists that respect program order: list of [(thread, index)]"""
    idx = [0] * len(progs)
    out = []

    def rec(cur):
        if all(idx[i] == len(progs[i]) for i in range(len(progs))):
            out.append(list(cur))
            return
        for i in range(len(progs)):
            if idx[i] < len(progs[i]):
                cur.append((i, idx[i]))
                idx[i] += 1
                rec(cur)
                idx[i] -= 1
                cur.pop()
    rec([])
    return out


def setup_fs(sr, u, cfg, shape, tagprefix, lens=(1, 0, 2)):
    """fresh filesystem `<tagprefix>R` with the universe below; returns Tree"""
    st = Setup(sr, u)
    root = tagprefix + 'R0'
    if cfg == 'mem':
        sr.do('fs %s mem' % root)
    elif cfg == 'alt':
        sr.do('fs %sU mem' % tagprefix)
        sr.do('join %sP %sU %s' % (tagprefix, tagprefix, hx(b'p')))
        sr.do('create_dir %sP' % tagprefix)
        sr.do('fs %s alt %sP' % (root, tagprefix))
    elif cfg in ('ovl', 'ovl_lowerpre', 'ovl_removed'):
        sr.do('fs %sL0 mem' % tagprefix)
        sr.do('fs %sL1 mem' % tagprefix)
        if cfg in ('ovl_lowerpre', 'ovl_removed'):
            # the pre-existing entries live in the lower layer only (built through the lower layer's own API)
            st.define_paths(tagprefix + 'L1', tagprefix + 'LL_')
            for v, k in shape:
                if k == 'd':
                    sr.do('create_dir %sLL_%s' % (tagprefix, v))
                else:
                    name = 'c_' + v
                    if name not in sr.syms:
                        sr.syms[name] = sym_content(sr.ex, 1, name)
                    sr.do('write %sLL_%s $%s' % (tagprefix, v, name))
        sr.do('fs %s ovl %sL0 %sL1' % (root, tagprefix, tagprefix))
    else:
        raise ValueError(cfg)
    st.define_paths(root, tagprefix)
    # the same symbolic contents in every copy of the state
    t = Tree(u)
    fi = 0
    if cfg == 'ovl_removed':
        # ... and were then removed through the overlay: the tree is empty again, but the overlay holds a marker per entry
        for v, k in shape:
            if u.parent(v) == 'R':
                r = sr.do('%s %s%s' % ('remove_dir_all' if k == 'd' else 'remove_file', tagprefix, v))
                if r != 'ok':
                    raise Unmodelled('thread set-up failed (removal through the overlay): ' + r)
        return t
    for v, k in shape:
        if cfg == 'ovl_lowerpre':
            t.n[v] = 'd' if k == 'd' else ('f', sr.syms['c_' + v])
            continue
        if k == 'd':
            r = sr.do('create_dir %s%s' % (tagprefix, v))
            t.n[v] = 'd'
        else:
            name = 'c_' + v
            if name not in sr.syms:
                sr.syms[name] = sym_content(sr.ex, lens[fi % len(lens)], name)
            fi += 1
            r = sr.do('write %s%s $%s' % (tagprefix, v, name))
            t.n[v] = ('f', sr.syms[name])
        if r != 'ok':
            raise Unmodelled('thread set-up failed: ' + r)
    return t


def line_for(op, var, prefix, tid=0):
    """script lines of one API call (a list); written data symbols are shared between all runs.
    A write session is two calls: open (+ the handle write, which touches no shared state) and drop."""
    if op in ('open_write', 'open_append'):
        h = '%sh%d_%s' % (prefix, tid, var)
        return ['hopen %s %s%s %s' % (h, prefix, var, 'create' if op == 'open_write' else 'append'),
                '?hwrite %s $w_%s_%s' % (h, op, var)]
    if op == 'drop':
        return ['?hdrop %sh%d_%s' % (prefix, tid, var)]
    if op == 'read':
        return ['read %s%s 3' % (prefix, var)]
    return ['%s %s%s' % (op, prefix, var)]


def expand(programs):
    out = []
    for p in programs:
        q = []
        for op, var in p:
            if op == 'write':
                q += [('open_write', var), ('drop', var)]
            elif op == 'append':
                q += [('open_append', var), ('drop', var)]
            else:
                q.append((op, var))
        out.append(q)
    return out


def do_call(sr, lines):
    """run the script lines of one call; '?' lines only if the handle exists. Returns the Outcome that matters"""
    res = None
    for ln in lines:
        if ln.startswith('?'):
            ln = ln[1:]
            if ln.split()[1] not in sr.handles:
                continue
        sr.do(ln)
        if res is None or not sr.last.ok:
            res = sr.last
    return res if res is not None else Outcome('skipped')


def run_concurrent_case(prog, params):
    """params: cfg, universe, shape, programs (list per thread of (op, var)), mode 'linearizable'|'all_ok'"""
    res = CaseResult()
    res.states = 1
    u = UNIVERSES[params['universe']]()
    cfg, shape, programs, mode = params['cfg'], params['shape'], expand(params['programs']), params['mode']
    prop = params.get('prop') or ('C16' if mode == 'linearizable' else 'C17')

    def h(ex):
        findings = []
        sr = ScriptRunner(ex)
        for prog_ in programs:
            for op, var in prog_:
                if op in ('open_write', 'open_append'):
                    nm = 'w_%s_%s' % (op, var)
                    if nm not in sr.syms:
                        # two bytes: longer than some and as long as other existing contents (a torn read needs a longer rewrite)
                        sr.syms[nm] = sym_content(ex, 2, nm)
        t0 = setup_fs(sr, u, cfg, shape, 'T_')
        results = [[None] * len(p) for p in programs]
        order = []

        thread_idx = [[] for _ in programs]

        def make(i):
            def fn():
                for j, (op, var) in enumerate(programs[i]):
                    k0 = len(sr.log)
                    results[i][j] = do_call(sr, line_for(op, var, 'T_', i))
                    # log entries appended by this call (other threads may have interleaved theirs)
                    mine = [k for k in range(k0, len(sr.log)) if getattr(sr, '_owner', {}).get(k) == i]
                    thread_idx[i] += mine
                    order.append((i, j))
            return fn
        sr._owner = {}
        _do0 = sr.do

        def do_tagged(line):
            k = len(sr.log)
            r = _do0(line)
            # sr.log may have grown by other threads' lines while this call was suspended: our entry is the last one
            sr._owner[len(sr.log) - 1] = ex.thread
            return r
        sr.do = do_tagged
        sched = Sched(ex, len(programs), params.get('preemption_bound'))
        logstart = len(sr.log)
        sched.run([make(i) for i in range(len(programs))])
        desc = ' || '.join('; '.join('%s %s' % x for x in p) for p in programs)
        key_base = '%s|%s|%s' % (cfg, ' || '.join('+'.join(op for op, _ in p) for p in programs), shape_str(shape))
        sched_txt = ''.join(str(x)[0] for x in sched.schedule)

        def fnd(key, detail):
            lines_all, outs_all = sr.materialize(ex.any_model())
            outs_all = [o.split(' ', 1)[1] for o in outs_all]
            conc = sorted(k for ks in thread_idx for k in ks)
            end = (max(conc) + 1) if conc else logstart
            script, outs = [], []

            def emit(line, out):
                script.append(line)
                outs.append('%d %s' % (len(script), out))
            for k in range(logstart):
                emit(lines_all[k], outs_all[k])
            emit('par ' + ','.join('m' if x == 'main' else str(x) for x in sched.schedule), 'ok')
            for i_, ks in enumerate(thread_idx):
                for k in ks:
                    emit('T%d %s' % (i_, lines_all[k]), outs_all[k])
            emit('endpar', 'ok')
            for k in range(end, len(lines_all)):
                if k not in conc:
                    emit(lines_all[k], outs_all[k])
            f = Finding(prop, key, detail + ' [threads: %s; schedule %s]' % (desc, sched_txt), script, outs, profile='hooks')
            return f
        if sched.deadlock:
            if sched.recursive_read:
                f = fnd(key_base + '|deadlock_recursive_read', 'a thread re-acquires the read lock it already holds while another thread waits for the write lock: '
                        'std::sync::RwLock blocks the reader behind the waiting writer, which waits for the first guard (deadlock)')
                f.confirmed = True       # the native outcome is a hang; it cannot be replayed to completion (see DESIGN)
                f.lines = None
            else:
                f = fnd(key_base + '|deadlock', 'no thread can proceed: deadlock')
            findings.append(f)
            return findings
        for i, rs in enumerate(results):
            for j, o in enumerate(rs):
                if o is not None and o.tag in ('panic', 'deadlock'):
                    findings.append(fnd(key_base + '|%s:%s' % (o.tag, o.where or '?'), 'thread %d call %d %ss: %s' % (i, j, o.tag, o.msg)))
                    return findings
        if params.get('panic_only'):
            ex.stats.asserts += 1       # this schedule ended without a panic or deadlock
            ex.stats.discharged += 1
            return findings
        got_snap, raw = snap_key(sr, u, 'T_')
        bad = wellformed_obs(u, raw)
        if mode == 'all_ok':
            for i, rs in enumerate(results):
                for j, o in enumerate(rs):
                    if not o.ok:
                        findings.append(fnd(key_base + '|call_failed:%s' % o.brief(), 'concurrent create_dir_all %s returned %s' % (programs[i][j][1], o.brief())))
                        return findings
            for i, p in enumerate(programs):
                for op, var in p:
                    for a in [var] + [x for x in u.ancestors(var) if x != 'R']:
                        if got_snap[a][0] != 'dir':
                            findings.append(fnd(key_base + '|not_a_directory_afterwards', 'after all calls returned Ok, %s is %s' % (a, got_snap[a][0])))
                            return findings
            ex.stats.asserts += 1       # this schedule's oracle (all Ok, every prefix a directory), decided on the path's values
            ex.stats.discharged += 1
            return findings
        if bad:
            findings.append(fnd(key_base + '|tree_not_wellformed', 'after the concurrent calls: %s %s' % bad[0]))
        if params.get('final_listing') and not bad:
            # afterwards (no thread running any more) every directory's listing names exactly the children that exist:
            # a listing served from state that a racing call left stale disagrees with exists()
            for dv in ['R'] + [n_.var for n_ in u.nodes]:
                if dv != 'R' and got_snap[dv][0] != 'dir':
                    continue
                sr.do('read_dir T_%s' % dv)
                lo = sr.last
                if not lo.ok:
                    continue
                want = sorted(n_.name.encode() for n_ in u.nodes if n_.parent == dv and n_.name is not None and got_snap[n_.var][0] in ('dir', 'file'))
                got_l = [v_ for v_ in lo.value]
                # (the script's read_dir reports the joined child paths: compare the last components)
                if all(v_.is_concrete() for v_ in got_l) and sorted(bytes(v_).rsplit(b'/', 1)[-1] for v_ in got_l) != want:
                    findings.append(fnd(key_base + '|final_listing_disagrees', 'after the concurrent calls read_dir(%s) lists %r but the existing children are %r'
                                        % (dv, sorted(bytes(v_) for v_ in got_l), want)))
                    return findings
        # sequential reference executions
        conds = []
        for n_, seq in enumerate(interleavings(programs)):
            pfx = 'Q%d_' % n_
            setup_fs(sr, u, cfg, shape, pfx)
            ok = []
            for (i, j) in seq:
                op, var = programs[i][j]
                ro = do_call(sr, line_for(op, var, pfx, i))
                ok.append(match(canon(results[i][j]), canon(ro)))
            ref_snap, _ = snap_key(sr, u, pfx)
            ok.append(snap_match(got_snap, ref_snap, u))
            conds.append(zand(ok))
        c = zor(conds)
        m = ex.check(c, 'linearizable')
        if m is not None and not bad:
            rs = '; '.join('T%d: %s' % (i, ','.join(o.brief() for o in rs_)) for i, rs_ in enumerate(results))
            findings.append(fnd(key_base + '|not_linearizable', 'results (%s) and final state match no sequential order' % rs))
        if not res.samples:
            res.samples.append({'config': cfg, 'state': shape_str(shape), 'threads': desc, 'schedule': sched_txt,
                                'results': [[o.brief() for o in rs_] for rs_ in results]})
        return findings
    fs, inc = explore(prog, h, res.stats)
    res.findings += fs
    res.inconclusive += inc
    res.evals = res.stats.paths
    return res
