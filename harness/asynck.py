"""C15 (kernels): the hand-written async reader AsyncReadableFile::{poll_read, poll_seek} against the
sync ReadableFile and the reference cursor, on the same symbolic scripts (async-vfs MIR dump)."""
import z3

from mirsym.engine import explore
from mirsym.values import *   # noqa
from mirsym import models
from .core import *           # noqa
from .api import World, Outcome
from .framework import CaseResult, Finding
from .handles import ref_seek, ref_read
from .script import hx


def poll_value(r):
    """Poll<Result<T,E>> -> Outcome-like tuple"""
    if r.variant != 'Ready':
        return ('pending', None)
    res = r.fields[0]
    if res.variant == 'Ok':
        return ('ok', res.fields[0])
    return ('err', res.fields[0])


def run_async_reader_case(prog, params):
    res = CaseResult()
    res.states = 1
    clen, k = params['clen'], params['k']
    sizes = params.get('sizes', [0, 1, 3])
    order = prog.struct_order

    def h(ex):
        findings = []
        w = World(ex)
        content = sym_content(ex, clen, 'content')
        arc_a, arc_s = ArcObj(content, 'arc'), ArcObj(content, 'arc')
        fa = order('AsyncReadableFile')
        areader = Adt('AsyncReadableFile', None, [arc_a if f == 'content' else 0 for f in fa])
        fs_ = order('ReadableFile')
        sreader = Adt('ReadableFile', None, [arc_s if f == 'content' else 0 for f in fs_])
        cx = Adt('Context', None, [])
        pos = 0
        trace, script = [], []

        def fnd(key, detail, model=None):
            m = model or ex.any_model()

            def val(x):
                return x if type(x) is int else m.eval(x, model_completion=True).as_long()
            cb = bytes(val(b) for b in content)
            lines = ['fs R amem', 'join f R 66', 'write f %s' % hx(cb), 'hopen h f open']
            for kind, a_, b_ in script:
                if kind == 'read':
                    lines.append('hread h %d' % a_)
                else:
                    n = val(b_)
                    if a_ != 'start' and n >= 1 << 63:
                        n -= 1 << 64
                    lines.append('hseek h %s %d' % (a_, n))
            # the same script on the sync MemoryFS, for comparison in the replay output
            lines += ['fs S mem', 'join sf S 66', 'write sf %s' % hx(cb), 'hopen sh sf open'] + [l.replace(' h ', ' sh ') for l in lines[4:]]
            f = Finding('C15', key, detail + ' [content=%r script=%s]' % (cb, trace), lines, None, profile='async')
            f.kernel = (cb, [(kind, a_, (val(b_) if b_ is not None else None)) for kind, a_, b_ in script])
            return f
        for step in range(k):
            if step == 0 and params.get('first') is not None:
                kind = params['first']
            elif step == 1 and params.get('second') is not None:
                kind = params['second']
            else:
                kind = ex.choose(4, 'kind')
            if kind == 0:
                n = sizes[ex.choose(len(sizes), 'size')]
                trace.append('read(%d)' % n)
                script.append(('read', n, None))
                buf = [S((0,) * n)]
                ra = w.guard(lambda: w.F('<AsyncReadableFile as Read>::poll_read', [Adt('Pin', None, [Ref([areader], 0)]), Ref([cx], 0), Ref(buf, 0)]))
                if ra.tag == 'panic':
                    findings.append(fnd('async_reader|read|panic:%s' % ra.where, 'async read(%d) after %s panics: %s' % (n, trace[:-1], ra.msg)))
                    return findings
                tag, v = poll_value(ra.value)
                cnt, data, npos = ref_read(ex, content, pos, n)
                if tag != 'ok':
                    findings.append(fnd('async_reader|read|%s' % tag, 'async read(%d) returns %s where the sync reader returns %d bytes' % (n, tag, cnt)))
                    return findings
                got = ex.concretize(v, n)
                if got != cnt:
                    findings.append(fnd('async_reader|read|wrong_count', 'async read(%d) returned %s bytes, the sync reader returns %d' % (n, got, cnt)))
                    return findings
                m = ex.check(seq_eq(buf[0][:cnt], data), 'async read data')
                if m is not None:
                    findings.append(fnd('async_reader|read|wrong_bytes', 'async read(%d) returned other bytes than the sync reader' % n, m))
                    return findings
                pos = npos
            else:
                variant = ['Start', 'Current', 'End'][kind - 1]
                off = ex.fresh('off%d' % step, 64)
                trace.append('seek(%s)' % variant)
                script.append(('seek', {'Start': 'start', 'Current': 'cur', 'End': 'end'}[variant], off))
                sf = Adt('SeekFrom', variant, [off])
                ra = w.guard(lambda: w.F('<AsyncReadableFile as Seek>::poll_seek', [Adt('Pin', None, [Ref([areader], 0)]), Ref([cx], 0), sf]))
                if ra.tag == 'panic':
                    findings.append(fnd('async_reader|seek_%s|panic:%s' % (variant.lower(), ra.where), 'async seek(%s) panics: %s' % (variant, ra.msg)))
                    return findings
                tag, v = poll_value(ra.value)
                exp = ref_seek(ex, clen, pos, variant, off)
                if exp is None:
                    if tag == 'ok':
                        findings.append(fnd('async_reader|seek_%s|invalid_seek_accepted' % variant.lower(), 'async seek(%s) to a position before the start returned Ok' % variant))
                        return findings
                else:
                    if tag != 'ok':
                        findings.append(fnd('async_reader|seek_%s|valid_seek_rejected' % variant.lower(),
                                            'async seek(%s) is rejected where the sync reader (and Cursor) accept it' % variant))
                        return findings
                    m = ex.check(bv(v, 64) == bv(exp, 64), 'async seek result')
                    if m is not None:
                        findings.append(fnd('async_reader|seek_%s|wrong_position' % variant.lower(), 'async seek(%s) returns another position than the sync reader' % variant, m))
                        return findings
                    pos = exp
        if not res.samples:
            res.samples.append({'content_len': clen, 'script': trace, 'path_condition_size': len(ex.pc)})
        return findings
    fs, inc = explore(prog, h, res.stats)
    for f in fs:
        predict(prog, f)
    res.findings += fs
    res.inconclusive += inc
    res.evals = res.stats.paths
    return res


def predict(prog, f):
    """engine-predicted outputs of the replay script: async part by running the kernels concretely, sync part through ScriptRunner"""
    from .script import ScriptRunner
    from mirsym.engine import Stats
    cb, script = f.kernel
    box = {}

    def h(ex):
        w = World(ex)
        order = prog.struct_order
        areader = Adt('AsyncReadableFile', None, [ArcObj(S(cb), 'arc') if x == 'content' else 0 for x in order('AsyncReadableFile')])
        cx = Adt('Context', None, [])
        outs = ['ok', 'ok:2f66', 'ok', 'ok']
        for kind, a_, b_ in script:
            if kind == 'read':
                buf = [S((0,) * a_)]
                r = w.guard(lambda: w.F('<AsyncReadableFile as Read>::poll_read', [Adt('Pin', None, [Ref([areader], 0)]), Ref([cx], 0), Ref(buf, 0)]))
                if r.tag == 'panic':
                    outs.append('panic'); continue
                tag, v = poll_value(r.value)
                outs.append('ok:%d:%s' % (v, hx(bytes(buf[0][:v]))) if tag == 'ok' else 'ioerr:%s' % v.fields[0])
            else:
                off = b_ if a_ == 'start' else (b_ if b_ < (1 << 63) else b_ - (1 << 64))
                sf = Adt('SeekFrom', {'start': 'Start', 'cur': 'Current', 'end': 'End'}[a_], [off & ((1 << 64) - 1) if a_ == 'start' else off])
                r = w.guard(lambda: w.F('<AsyncReadableFile as Seek>::poll_seek', [Adt('Pin', None, [Ref([areader], 0)]), Ref([cx], 0), sf]))
                if r.tag == 'panic':
                    outs.append('panic'); continue
                tag, v = poll_value(r.value)
                outs.append('ok:%d' % (v & ((1 << 64) - 1)) if tag == 'ok' else 'ioerr:%s' % v.fields[0])
        n_async = len(outs)
        sr = ScriptRunner(ex)
        for ln in f.lines[n_async:]:
            outs.append(sr.do(ln))
        box['outs'] = ['%d %s' % (i + 1, o) for i, o in enumerate(outs)]
        return []
    explore(prog, h, Stats())
    f.outs = box.get('outs')
