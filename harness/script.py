"""Script runner: executes the operation-script language of native/src/main.rs inside the MIR
engine, producing the same normalised output lines.  With all inputs concrete the two outputs
must be identical (selftest, DESIGN §2.9); solver counterexamples are turned into scripts and
replayed natively before they are reported (DESIGN §2.11)."""
import os
import subprocess

from mirsym.values import *   # noqa
from mirsym import models
from .api import World, Outcome

NATIVE_DIR = os.environ.get('VERIF_NATIVE_DIR') or os.path.join(os.path.dirname(os.path.dirname(os.path.abspath(__file__))), 'native')


def hx(b):
    if isinstance(b, SymBytes):
        return b.decode()
    b = bytes(b)
    return b.hex() if b else '-'


def unhx(s):
    return b'' if s == '-' else bytes.fromhex(s)


class IntSym:
    def __init__(self, v):
        self.v = v


class TimeSym(IntSym):
    """a symbolic instant in an output line: printed as its seconds when < 1e9, else 'other' (as the native driver does)"""


class SymBytes(bytes):
    """placeholder for a (partly) symbolic byte string inside an output line"""
    sym = None


_CUR = [None]      # the ScriptRunner whose exec is running (for placeholder registration)


def conc(s):
    """S -> bytes; symbolic byte strings become a placeholder that is filled in from a model"""
    s = S(s)
    if not s.is_concrete():
        r = _CUR[0]
        k = len(r.outsyms)
        r.outsyms.append(s)
        b = SymBytes(('{%d}' % k).encode())
        b.sym = s
        return b
    return bytes(s)


def fmt_err(o):
    if o.tag == 'panic' or o.tag == 'deadlock':
        return 'panic' if o.tag == 'panic' else 'deadlock'
    k = o.kind
    if k.startswith('IoError:'):
        k = 'IoError(%s)' % k.split(':', 1)[1]
    if k.startswith('io:'):
        return 'ioerr:%s' % k[3:]
    return 'err:%s:%s' % (k, hx(conc(o.path)) if o.path is not None else '?')


def unit(o):
    return 'ok' if o.ok else fmt_err(o)


def boolv(ex, v):
    if isinstance(v, bool):
        return 'true' if v else 'false'
    return 'true' if ex.branch(v) else 'false'


class ScriptRunner:
    def __init__(self, ex):
        self.ex = ex
        self.w = World(ex)
        self.paths, self.handles, self.ctls = {}, {}, {}
        self.syms = {}        # $name -> S (bytes) or BV/int
        self.outsyms = []     # symbolic byte strings referenced by {k} in output lines
        self.aw = None        # AsyncWorld, created on first `fs X amem|aalt|aovl`
        self.async_vars = set()
        self.log = []         # (script line, output string)
        self.last = None      # raw Outcome of the last operation

    def do(self, line):
        """execute one script line in the engine; returns the normalised output string"""
        t = line.split()
        _CUR[0] = self
        es = getattr(self, 'embed_sets', None)
        if es and len(t) > 1 and t[1] in self.paths and t[0] not in ('fs', 'join'):
            # several RustEmbed types in one process: <T as RustEmbed> of a call is the type of the target's filesystem
            try:
                cur = es.get(id(self.w.fs_of(self.paths[t[1]])))
            except Exception:
                cur = None
            if cur is not None:
                self.ex.hooks['embed_files'] = cur
        try:
            r = self.exec(t)
        except Panic as p:
            r = 'panic'
            self.last = Outcome('panic', msg=p.msg, where=p.where)
        except Deadlock as dl:
            r = 'deadlock'
            self.last = Outcome('deadlock', msg=str(dl))
        except KeyError as ke:
            if ke.args and ke.args[0] in t:
                # a script variable that an earlier (failed / panicked) line never defined
                r = 'novar:%s' % ke.args[0]
                self.last = Outcome('err', kind='NoSuchVariable')
            else:
                raise
        self.log.append((line, r))
        return r

    def arg_bytes(self, tok):
        if tok.startswith('$'):
            return self.syms[tok[1:]]
        return S(unhx(tok))

    def arg_int(self, tok):
        if tok.startswith('$'):
            return self.syms[tok[1:]]
        return int(tok)

    def materialize(self, model):
        """concrete (script text, expected output lines) under a solver model"""
        import z3

        def val(x, bits=8):
            if type(x) is int:
                return x
            v = model.eval(x, model_completion=True)
            return v.as_long()

        def sub_line(line):
            out = []
            for tok in line.split():
                if tok.startswith('$'):
                    v = self.syms[tok[1:]]
                    if isinstance(v, tuple):
                        tok = hx(bytes(val(b) for b in v))
                    else:
                        n = val(v)
                        if hasattr(v, 'size') and tok[1:].startswith('i') and n >= 1 << (v.size() - 1):
                            n -= 1 << v.size()
                        tok = str(n)
                out.append(tok)
            return ' '.join(out)

        def sub_out(o):
            o0 = o
            for k, sv in enumerate(self.outsyms):
                ph = '{%d}' % k
                if ph in o:
                    if isinstance(sv, TimeSym):
                        n_ = val(sv.v)
                        o = o.replace(ph, str(n_) if n_ < 1000000000 else 'other')
                    elif isinstance(sv, IntSym):
                        o = o.replace(ph, str(val(sv.v)))
                    else:
                        o = o.replace(ph, hx(bytes(val(b) for b in sv)))
            if o.startswith('ok:[') and o.endswith(']') and '{' not in o and o != o0:
                # a listing with symbolic names: the native driver sorts the concrete names
                o = 'ok:[%s]' % ','.join(sorted(x for x in o[4:-1].split(',') if x))
            return o
        lines = [sub_line(l) for l, _ in self.log]
        outs = ['%d %s' % (i + 1, sub_out(o)) for i, (_, o) in enumerate(self.log)]
        return lines, outs

    def reset(self):
        self.paths, self.handles, self.ctls = {}, {}, {}

    def tsec(self, opt):
        if opt.variant == 'None':
            return 'none'
        x = opt.fields[0].fields[0]
        if type(x) is int:
            return str(x) if x < 1000000000 else 'other'
        if is_clock_reading(x):
            return 'other'          # a clock reading: the clock model returns instants >= 1e9 s
        k = len(self.outsyms)
        self.outsyms.append(TimeSym(x))
        return '{%d}' % k

    def run(self, text):
        out = []
        for i, line in enumerate(text.split('\n')):
            line = line.strip()
            if not line or line.startswith('#'):
                if line.startswith('#!'):
                    out.append(line)
                continue
            if line == 'reset':
                self.reset()
                out.append('%d reset' % (i + 1))
                continue
            r = self.do(line)
            out.append('%d %s' % (i + 1, r))
        return out

    def is_async(self, t):
        if t[0] == 'fs':
            return t[2] in ('amem', 'aalt', 'aovl', 'apend')
        if t[0] in ('join', 'parent', 'root'):
            return t[2] in self.async_vars
        if t[0] in ('hwrite', 'hflush', 'hseek', 'hread', 'hreadall', 'hdrop', 'wnext', 'wdrop'):
            return t[1] in self.async_vars
        if t[0] in ('hopen', 'wopen'):
            return t[2] in self.async_vars
        return len(t) > 1 and t[1] in self.async_vars

    def exec(self, t):
        if self.is_async(t):
            if self.aw is None:
                from .aapi import AsyncWorld
                self.aw = AsyncWorld(self.ex)
            w = self.aw
            if t[0] == 'fs':
                self.async_vars.add(t[1])
                if t[2] == 'apend':
                    # async memory fs whose external futures (lock acquisitions) return Pending n times first
                    n_ = int(t[3])
                    self.ex.hooks['pending'] = lambda ex_, what: n_
                    t = [t[0], t[1], 'mem']
                else:
                    t = [t[0], t[1], {'amem': 'mem', 'aalt': 'alt', 'aovl': 'ovl'}[t[2]]] + t[3:]
            elif t[0] in ('join', 'parent', 'root', 'hopen', 'wopen'):
                self.async_vars.add(t[1])
        else:
            w = self.w
        return self.exec_with(w, t)

    def exec_with(self, w, t):
        ex, P = self.ex, self.paths
        op = t[0]
        self.last = None
        if op == 'fs':
            kind = t[2]
            if kind == 'mem':
                P[t[1]] = w.new_mem()
            elif kind == 'alt':
                P[t[1]] = w.new_altroot(P[t[3]])
            elif kind == 'ovl':
                o = w.guard(lambda: w.new_overlay([P[k] for k in t[3:]]))
                self.last = o
                if not o.ok:
                    return fmt_err(o)
                P[t[1]] = o.value
            elif kind in ('wmem', 'walt'):
                from .wrapfs import new_wrapped
                P[t[1]] = new_wrapped(self, kind, t[3], P[t[4]] if kind == 'walt' else None)
            elif kind in ('embed', 'embed2'):
                # 'embed2' is a second RustEmbed type (own folder) in the same process
                sets = self.__dict__.setdefault('embed_all', {})
                # (a folder without any file has no embedfile line: it must not inherit the other type's set from the hook)
                fresh = kind != 'embed' or bool(self.__dict__.get('embed_sets')) or 'embed2' in sets
                mine = sets.setdefault(kind, {} if fresh else ex.hooks.setdefault('embed_files', {}))
                ex.hooks['embed_files'] = mine
                o = w.guard(lambda: w.F('path::VfsPath::new', [w.F('EmbeddedFS::new', [])]))
                self.last = o
                if not o.ok:
                    return fmt_err(o)
                P[t[1]] = o.value
                self.__dict__.setdefault('embed_sets', {})[id(w.fs_of(o.value))] = mine
            elif kind == 'phys':
                from .osm import new_phys
                P[t[1]] = new_phys(self)
                self.phys_roots[t[1]] = self._last_phys_root
            else:
                raise Unmodelled('script fs kind ' + kind)
            return 'ok'
        if op == 'rawfile':
            from .osm import raw_file
            raw_file(self, t[1], unhx(t[2]))
            self.last = Outcome('ok')
            return 'ok'
        if op == 'rawlink':
            from .osm import raw_dangling_link
            raw_dangling_link(self, t[1], unhx(t[2]))
            self.last = Outcome('ok')
            return 'ok'
        if op == 'rawsock':
            from .osm import raw_socket
            raw_socket(self, t[1], unhx(t[2]))
            self.last = Outcome('ok')
            return 'ok'
        if op == 'embedfile':
            sets = self.__dict__.setdefault('embed_all', {})
            sets.setdefault('embed', ex.hooks.setdefault('embed_files', {}))[tuple(unhx(t[1]))] = self.arg_bytes(t[2])
            self.last = Outcome('ok')
            return 'ok'
        if op == 'embedfile2':
            self.__dict__.setdefault('embed_all', {}).setdefault('embed2', {})[tuple(unhx(t[1]))] = self.arg_bytes(t[2])
            self.last = Outcome('ok')
            return 'ok'
        if op in ('arm', 'disarm', 'log'):
            from .wrapfs import ctl_op
            return ctl_op(self, t)
        if op == 'join':
            o = self.last = w.join(P[t[2]], self.arg_bytes(t[3]))
            if o.ok:
                P[t[1]] = o.value
                return 'ok:' + hx(conc(w.as_str(o.value)))
            return fmt_err(o)
        if op in ('parent', 'root'):
            o = self.last = w.call(op, P[t[2]])
            if not o.ok:
                return fmt_err(o)
            P[t[1]] = o.value
            return 'ok:' + hx(conc(w.as_str(o.value)))
        if op == 'filename':
            o = self.last = w.call('filename', P[t[1]])
            return 'ok:' + hx(conc(o.value)) if o.ok else fmt_err(o)
        if op == 'extension':
            o = self.last = w.call('extension', P[t[1]])
            if not o.ok:
                return fmt_err(o)
            return 'ok:none' if o.value.variant == 'None' else 'ok:some:' + hx(conc(o.value.fields[0]))
        if op == 'is_root':
            o = self.last = w.call('is_root', P[t[1]])
            if o.ok:
                o.value = ex.branch(o.value)
            return 'ok:' + boolv(ex, o.value) if o.ok else fmt_err(o)
        if op == 'eq':
            eqfn = '<async_vfs::path::AsyncVfsPath as PartialEq>::eq' if w is self.aw else '<path::VfsPath as PartialEq>::eq'
            o = self.last = w.guard(lambda: w.F(eqfn, [ValRef(P[t[1]]), ValRef(P[t[2]])]))
            if o.ok:
                o.value = ex.branch(o.value)
            return 'ok:' + boolv(ex, o.value) if o.ok else fmt_err(o)
        if op in ('create_dir', 'create_dir_all', 'remove_file', 'remove_dir', 'remove_dir_all'):
            o = self.last = w.call(op, P[t[1]])
            return unit(o)
        if op in ('copy_file', 'move_file', 'move_dir'):
            o = self.last = w.call(op, P[t[1]], ValRef(P[t[2]]))
            return unit(o)
        if op == 'copy_dir':
            o = self.last = w.copy_dir(P[t[1]], P[t[2]])
            return 'ok:%d' % o.value if o.ok else fmt_err(o)
        if op in ('exists', 'is_file', 'is_dir'):
            o = self.last = w.call(op, P[t[1]])
            if o.ok:
                o.value = ex.branch(o.value)
            return 'ok:' + boolv(ex, o.value) if o.ok else fmt_err(o)
        if op == 'metadata':
            o = self.last = w.metadata(P[t[1]])
            if not o.ok:
                return fmt_err(o)
            m = o.value
            ln = m.fields[1]
            if type(ln) is not int:
                ln = ex.concretize(ln, 64)
            o.value = ('file' if m.fields[0].variant == 'File' else 'dir', ln, m)
            return 'ok:%s:%d' % (o.value[0], ln)
        if op == 'times':
            o = self.last = w.metadata(P[t[1]])
            if not o.ok:
                return fmt_err(o)
            m = o.value
            names = ex.prog.struct_fields.get('VfsMetadata', ['file_type', 'len', 'created', 'modified', 'accessed'])
            g = lambda n: m.fields[names.index(n)]
            o.value = {'c': g('created'), 'm': g('modified'), 'a': g('accessed')}
            return 'ok:c=%s,m=%s,a=%s' % (self.tsec(g('created')), self.tsec(g('modified')), self.tsec(g('accessed')))
        if op == 'set_time':
            tv = self.arg_int(t[3])
            tm = Adt('SystemTime', None, [tv])
            which = {'c': 'creation', 'm': 'modification', 'a': 'access'}[t[2]]
            o = self.last = w.set_time(which, P[t[1]], tm)
            return unit(o)
        if op == 'read_dir':
            o = self.last = w.read_dir(P[t[1]])
            if not o.ok:
                return fmt_err(o)
            o.value = [w.as_str(v) for v in o.value]
            names = [hx(conc(v)) for v in o.value]
            if all(v.is_concrete() for v in o.value):
                names.sort()
            return 'ok:[%s]' % ','.join(names)
        if op == 'walk_dir':
            o = self.last = w.walk_dir(P[t[1]])
            if not o.ok:
                return fmt_err(o)
            base = w.as_str(P[t[1]])
            vals = []
            for it in o.value:
                vals.append(w.as_str(it.value) if it.ok else it)
            o.value = vals
            if not all(isinstance(v, Outcome) or v.is_concrete() for v in vals) or not base.is_concrete():
                return 'ok:[%s]:order=?' % ','.join(hx(conc(v)) if not isinstance(v, Outcome) else fmt_err(v) for v in vals)
            base = bytes(base)
            seen, items, order_ok = [], [], True
            for v in vals:
                if not isinstance(v, Outcome):
                    s_ = bytes(v)
                    par = s_[:s_.rfind(b'/')] if b'/' in s_ else b''
                    if par != base and par not in seen:
                        order_ok = False
                    seen.append(s_)
                    items.append(hx(s_))
                else:
                    items.append(fmt_err(v))
            items.sort()
            return 'ok:[%s]:order=%s' % (','.join(items), 'true' if order_ok else 'false')
        if op == 'read_to_string':
            o = self.last = w.read_to_string(P[t[1]])
            return 'ok:' + hx(conc(o.value)) if o.ok else fmt_err(o)
        if op in ('write', 'append'):
            o = self.last = w.append_file(P[t[1]]) if op == 'append' else w.create_file(P[t[1]])
            if not o.ok:
                return fmt_err(o)
            h = o.value
            data = self.arg_bytes(t[2])
            if w is self.aw:
                r = self.last = w.write_all(h, data)
            else:
                r = self.last = w.guard(lambda: models.call_model(ex, '<Box<dyn SeekAndWrite> as std::io::Write>::write_all', [ValRef(h), ValRef(data)]))
            if not r.ok:
                w.h_drop(h)
                return fmt_err(r)
            d = self.last = w.h_drop(h)
            return 'ok' if d.ok else fmt_err(d)
        if op == 'read':
            o = self.last = w.read_all(P[t[1]], int(t[2]))
            return 'ok:' + hx(conc(o.value)) if o.ok else fmt_err(o)
        if op == 'hopen':
            o = self.last = {'create': w.create_file, 'append': w.append_file, 'open': w.open_file}[t[3]](P[t[2]])
            if not o.ok:
                return fmt_err(o)
            self.handles[t[1]] = o.value
            return 'ok'
        if op == 'hwrite':
            o = self.last = w.h_write(self.handles[t[1]], self.arg_bytes(t[2]))
            if o.ok and type(o.value) is not int:
                o.value = ex.concretize(o.value, 64)
            return 'ok:%d' % o.value if o.ok else fmt_err(o)
        if op == 'hflush':
            o = self.last = w.h_flush(self.handles[t[1]])
            return unit(o)
        if op == 'hseek':
            off = self.arg_int(t[3])
            var = {'start': 'Start', 'end': 'End', 'cur': 'Current'}[t[2]]
            if var == 'Start' and type(off) is int:
                off &= (1 << 64) - 1
            o = self.last = w.h_seek(self.handles[t[1]], var, off)
            if not o.ok:
                return fmt_err(o)
            v = o.value
            if type(v) is int:
                return 'ok:%d' % (v & ((1 << 64) - 1))
            k = len(self.outsyms)
            self.outsyms.append(IntSym(v))
            return 'ok:{%d}' % k
        if op == 'hread':
            n = int(t[2])
            o = self.last = w.h_read(self.handles[t[1]], n)
            if not o.ok:
                return fmt_err(o)
            k, buf = o.value
            if type(k) is not int:
                k = ex.concretize(k, n)
                if k is None:
                    return 'ok:toolarge'
                o.value = (k, buf)
            return 'ok:%d:%s' % (k, hx(conc(buf[:min(k, n)])))
        if op == 'hreadall':
            # Read::read_to_end on the handle (the type's own override if it has one)
            buf = [S()]
            o = self.last = w.guard(lambda: models.call_model(ex, '<Box<dyn SeekAndRead + Send> as std::io::Read>::read_to_end', [self.handles[t[1]], Ref(buf, 0)]))
            if not o.ok:
                return fmt_err(o)
            k = o.value
            if type(k) is not int:
                k = ex.concretize(k, 64)
            o.value = (k, buf[0])
            return 'ok:%s:%s' % (k, hx(conc(buf[0])))
        if op == 'wopen':
            o = self.last = w.call('walk_dir', P[t[2]])
            if not o.ok:
                return fmt_err(o)
            self.handles[t[1]] = o.value
            return 'ok'
        if op == 'wnext':
            it = self.handles[t[1]]

            def nxt():
                if w is self.aw:
                    from mirsym import asyncrt
                    cx = Ref([Adt('Context', None, [])], 0)
                    for _ in range(400):
                        r = asyncrt.stream_next(ex, it, cx)
                        if r.variant == 'Ready':
                            return r.fields[0]
                    raise Bound('stream pending for more than 400 polls')
                return models.iter_next(ex, it)
            o = self.last = w.guard(nxt)
            if not o.ok:
                return fmt_err(o)
            item = o.value
            if item.variant == 'None':
                o.value = None
                return 'ok:none'
            io_ = w.norm(item.fields[0])
            self.last = io_
            if not io_.ok:
                return fmt_err(io_)
            io_.value = w.as_str(io_.value)
            return 'ok:some:' + hx(conc(io_.value))
        if op == 'wdrop':
            self.handles.pop(t[1], None)
            return 'ok'
        if op == 'hdrop':
            h = self.handles.pop(t[1], None)
            if h is not None:
                d = self.last = w.h_drop(h)
                if not d.ok:
                    return fmt_err(d)
            return 'ok'
        raise Unmodelled('script op ' + op)


# ------------------------------------------------------------------------------------------ native side

_built = {}


def build_native(profile='dev', quiet=True):
    """(re)build the native driver against /repo's current working tree; returns the binary path"""
    if profile in _built:
        return _built[profile]
    env = dict(os.environ)
    env['CARGO_NET_OFFLINE'] = 'true'
    env.pop('RUSTFLAGS', None)
    tdir = os.environ.get('VERIF_NATIVE_TARGET', os.path.join(NATIVE_DIR, 'target'))
    env['CARGO_TARGET_DIR'] = tdir
    if profile == 'hooks':
        env['RUSTFLAGS'] = '--cfg manuel_woelker_rust_vfs_verif'
        tdir = tdir + '-hooks'
        env['CARGO_TARGET_DIR'] = tdir
    if profile == 'async':
        tdir = tdir + '-async'
        env['CARGO_TARGET_DIR'] = tdir
    if profile == 'embed':
        tdir = tdir + '-embed'
        env['CARGO_TARGET_DIR'] = tdir
        os.makedirs('/var/tmp/verif-embed', exist_ok=True)
        os.makedirs('/var/tmp/verif-embed2', exist_ok=True)
    cmd = ['cargo', 'build', '--offline'] + (['--release'] if profile == 'release' else []) + (['--features', 'embed'] if profile == 'embed' else []) + (['--features', 'asyncvfs'] if profile == 'async' else [])
    r = subprocess.run(cmd, cwd=NATIVE_DIR, env=env, capture_output=True, text=True)
    if r.returncode != 0:
        raise RuntimeError('native driver build failed:\n' + r.stderr[-3000:])
    b = os.path.join(tdir, 'release' if profile == 'release' else 'debug', 'vfs-native-driver')
    _built[profile] = b
    return b


def run_native(script_text, profile='dev', path=None):
    import tempfile
    b = build_native(profile)
    if path is None:
        fd, path = tempfile.mkstemp(prefix='vscript.', suffix='.txt', dir=os.environ.get('VERIF_SCRATCH', '/var/tmp'))
        os.close(fd)
        rm = True
    else:
        rm = False
    try:
        open(path, 'w').write(script_text)
        lock = None
        if profile == 'embed':
            # the embed variant reads ONE folder (compile-time path) at run time: serialise concurrent check runs
            import fcntl
            lock = open('/var/tmp/verif-embed.lock', 'w')
            fcntl.flock(lock, fcntl.LOCK_EX)
        try:
            r = subprocess.run([b, path], capture_output=True, text=True, timeout=120)
        finally:
            if lock is not None:
                lock.close()
        if r.returncode != 0:
            raise RuntimeError('native driver failed (%d): %s' % (r.returncode, r.stderr[-2000:]))
        # the library itself prints to stdout in places (a leftover println! in async create_dir_all): keep driver lines only
        import re as _re
        return [l for l in r.stdout.split('\n') if _re.match(r'\d+ \S', l) or l.startswith('#!')]
    finally:
        if rm:
            os.unlink(path)
