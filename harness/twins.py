"""C15 (second stage): every async filesystem and the async path type against their synchronous
twins, in lock-step, on the lowered-coroutine MIR (mirsym/asyncrt.py).  The same call from the
same state is executed through VfsPath and through AsyncVfsPath (coroutines polled by the engine's
executor; every external future — async-std lock, stream next, cursor I/O — returns Pending 0, 1
or 2 times first, chosen per path).  Compared: outcome, error kind, returned data, full snapshot."""
import z3

from mirsym.engine import explore
from mirsym.values import *   # noqa
from .core import *           # noqa
from .framework import CaseResult, make_finding
from .script import ScriptRunner, hx
from .onestep import target_class, op_line
from .threads import canon, match
from . import overlay as ovl


def norm_kind(k):
    return (k or '').replace('AsyncIoError', 'IoError')


def build_pair(sr, u, config, state, lens=(1, 0, 2), pend=0):
    """creates sync root S and async root A with identical contents; returns the abstract tree"""
    ex = sr.ex
    st = Setup(sr, u)
    t = Tree(u)

    def mk(root, kind_mem, kind_alt, kind_ovl, pfx):
        if config == 'mem':
            sr.do('fs %s %s' % (root, kind_mem))
        elif config == 'alt':
            sr.do('fs %sU %s' % (pfx, kind_mem))
            sr.do('join %sP %sU %s' % (pfx, pfx, hx(b'p')))
            sr.do('create_dir %sP' % pfx)
            sr.do('fs %s %s %sP' % (root, kind_alt, pfx))
        elif config == 'ovl':
            for i in range(2):
                sr.do('fs %sL%d %s' % (pfx, i, kind_mem))
                st.define_paths('%sL%d' % (pfx, i), '%sL%d_' % (pfx, i))
    mk('S', 'mem', 'alt', 'ovl', 'S')
    mk('A', 'amem' if pend == 0 else 'apend %d' % pend, 'aalt', 'aovl', 'A')
    if config == 'ovl':
        fi = 0
        for v, k, layers in state:
            for i in sorted(layers):
                if k == 'd':
                    r1 = sr.do('create_dir SL%d_%s' % (i, v)); r2 = sr.do('create_dir AL%d_%s' % (i, v))
                else:
                    name = 'c%d_%s' % (i, v)
                    sr.syms[name] = sym_content(ex, lens[(fi + i) % len(lens)], name)
                    r1 = sr.do('write SL%d_%s $%s' % (i, v, name)); r2 = sr.do('write AL%d_%s $%s' % (i, v, name))
                if r1 != 'ok' or r2 != 'ok':
                    raise Unmodelled('twin set-up failed: %s / %s' % (r1, r2))
            fi += 1
            first = min(layers)
            t.n[v] = 'd' if k == 'd' else ('f', sr.syms['c%d_%s' % (first, v)])
        sr.do('fs S ovl SL0 SL1')
        sr.do('fs A aovl AL0 AL1')
        st.define_paths('S', 'S_')
        st.define_paths('A', 'A_')
        return t
    st.define_paths('S', 'S_')
    st.define_paths('A', 'A_')
    fi = 0
    for v, k in state:
        if k == 'd':
            r1 = sr.do('create_dir S_%s' % v); r2 = sr.do('create_dir A_%s' % v)
            t.n[v] = 'd'
        else:
            name = 'c_' + v
            sr.syms[name] = sym_content(ex, lens[fi % len(lens)], name)
            fi += 1
            r1 = sr.do('write S_%s $%s' % (v, name)); r2 = sr.do('write A_%s $%s' % (v, name))
            t.n[v] = ('f', sr.syms[name])
        if r1 != 'ok' or r2 != 'ok':
            raise Unmodelled('twin set-up failed at %s: %s / %s' % (v, r1, r2))
    return t


def compare_snaps(sr, u, key, findings, prop):
    ex = sr.ex
    ss = snapshot(sr, u, prefix='S_')
    sa = snapshot(sr, u, prefix='A_')
    for v in u.vars:
        a, b = ss[v], sa[v]
        ka, kb = observed_kind(a), observed_kind(b)
        if ka != kb:
            findings.append(make_finding(prop, key + '|state_after:kind', 'afterwards %s is %s through the sync API but %s through the async API' % (v, ka, kb), sr, profile='async'))
            continue
        if ka == 'file' and not is_err(a.content) and not is_err(b.content):
            if len(a.content) != len(b.content) or ex.check(seq_eq(a.content, b.content), 'bytes') is not None:
                findings.append(make_finding(prop, key + '|state_after:bytes', 'afterwards file %s holds different bytes on the two APIs' % v, sr, profile='async'))
        for what, xa, xb in (('exists', a.exists, b.exists), ('metadata', a.meta, b.meta)):
            if is_err(xa) != is_err(xb) or (not is_err(xa) and xa != xb):
                findings.append(make_finding(prop, key + '|state_after:%s' % what, 'afterwards %s(%s) differs: sync %r, async %r' % (what, v, xa if not is_err(xa) else 'Err', xb if not is_err(xb) else 'Err'), sr, profile='async'))
        la = None if (a.listing is None or is_err(a.listing)) else sorted(bytes(x) for x in a.listing if S(x).is_concrete())
        lb = None if (b.listing is None or is_err(b.listing)) else sorted(bytes(x) for x in b.listing if S(x).is_concrete())
        if la != lb:
            findings.append(make_finding(prop, key + '|state_after:listing', 'afterwards read_dir(%s) differs: sync %r, async %r' % (v, la, lb), sr, profile='async'))


def run_twin_case(prog, params):
    res = CaseResult()
    res.states = 1
    u = UNIVERSES[params['universe']]()
    config, state = params['config'], params['state']
    prop = 'C15'
    for item in params['ops']:
        op, v = item[0], item[1]
        dst = item[2] if len(item) > 2 else None

        def h(ex, op=op, v=v, dst=dst):
            findings = []
            sr = ScriptRunner(ex)
            npend = ex.choose(len(params.get('pendings', [0, 1])), 'pending polls')
            pend = params.get('pendings', [0, 1])[npend]
            ex.hooks['pending'] = lambda ex_, what: pend
            t = build_pair(sr, u, config, state, pend=pend)
            tcls = target_class(t, v)
            key = 'sync_vs_async|%s|%s|%s%s' % (config, op, tcls, ('|dst=' + target_class(t, dst)) if dst else '')
            if op in ('create_hold', 'append_hold'):
                # a write handle is held open while the path is observed, then written, flushed and dropped
                sr.syms['wdata'] = sym_content(ex, 1, 'wdata')
                res_ = {}
                for pfx in ('S_', 'A_'):
                    hn = 'hh' + pfx
                    seq = ['hopen %s %s%s %s' % (hn, pfx, v, 'create' if op == 'create_hold' else 'append'), 'metadata %s%s' % (pfx, v), 'read %s%s 3' % (pfx, v),
                           'hwrite %s $wdata' % hn, 'hflush %s' % hn, 'read %s%s 3' % (pfx, v), 'hdrop %s' % hn]
                    outs_ = []
                    opened = False
                    for ln in seq:
                        if ln.split()[0] in ('hwrite', 'hflush', 'hdrop') and not opened:
                            continue
                        sr.do(ln)
                        if ln.startswith('hopen'):
                            opened = sr.last.ok
                        outs_.append((ln.split()[0], sr.last))
                    res_[pfx] = outs_
                if len(res_['S_']) != len(res_['A_']):
                    findings.append(make_finding(prop, key + '|open_handle:success_differs', '%s on %s succeeds on one API only' % (op, v), sr, profile='async'))
                else:
                    for (n1, o1), (n2, o2) in zip(res_['S_'], res_['A_']):
                        if o1.tag in ('panic', 'deadlock') or o2.tag in ('panic', 'deadlock'):
                            findings.append(make_finding('C13', key + '|open_handle:panic:%s' % n1, '%s panics while a handle is held' % n1, sr, profile='async'))
                            break
                        mres = match(canon(o1), canon(o2))
                        if mres is False or (mres is not True and ex.check(mres, 'held') is not None):
                            findings.append(make_finding(prop, key + '|open_handle:%s_differs' % n1,
                                                         'while a %s handle on %s is open, %s returns %s on the sync API and %s on the async API' % (op.split('_')[0], v, n1, o1.brief(), o2.brief()), sr, profile='async'))
                            break
                compare_snaps(sr, u, key, findings, prop)
                return findings
            outs = []
            for pfx in ('S_', 'A_'):
                if dst is not None:
                    line = '%s %s%s %s%s' % (op, pfx, v, pfx, dst)
                elif pfx == 'S_':
                    line, _ = op_line(op, pfx + v, sr, ex, 1)
                else:
                    line = outs[0][0].replace('S_' + v, 'A_' + v, 1)
                sr.do(line)
                outs.append((line, sr.last))
            os_, oa = outs[0][1], outs[1][1]
            for who, o in (('sync', os_), ('async', oa)):
                if o.tag in ('panic', 'deadlock'):
                    findings.append(make_finding('C13', key + '|panic:%s:%s' % (who, o.where), '%s on %s panics on the %s API: %s' % (op, v, who, o.msg), sr, profile='async'))
            if any(o.tag in ('panic', 'deadlock') for o in (os_, oa)):
                if os_.tag != oa.tag:
                    findings.append(make_finding(prop, key + '|panic_on_one_side', '%s on %s: sync %s, async %s' % (op, v, os_.brief(), oa.brief()), sr, profile='async'))
                return findings
            if os_.ok != oa.ok:
                findings.append(make_finding(prop, key + '|outcome_differs:sync=%s,async=%s' % (os_.brief(), oa.brief()),
                                             '%s on %s (%s): the sync API returns %s, the async API returns %s' % (op, v, tcls, os_.brief(), oa.brief()), sr, profile='async'))
            elif not os_.ok:
                if norm_kind(os_.kind) != norm_kind(oa.kind):
                    findings.append(make_finding(prop, key + '|error_kind_differs:sync=%s,async=%s' % (os_.kind, oa.kind),
                                                 '%s on %s fails with %s on the sync API and %s on the async API' % (op, v, os_.kind, oa.kind), sr, profile='async'))
                elif os_.path is not None and oa.path is not None and (len(os_.path) != len(oa.path) or ex.check(seq_eq(os_.path, oa.path), 'error path') is not None):
                    findings.append(make_finding(prop, key + '|error_path_differs', '%s on %s: the two APIs name different paths in the error' % (op, v), sr, profile='async'))
            else:
                if op != 'read_dir':
                    mres = match(canon(os_), canon(oa))
                    if mres is False or (mres is not True and ex.check(mres, 'result') is not None):
                        findings.append(make_finding(prop, key + '|result_differs', '%s on %s returns different data on the two APIs' % (op, v), sr, profile='async'))
            compare_snaps(sr, u, key, findings, prop)
            if not res.samples:
                res.samples.append({'config': config, 'state': repr(state)[:120], 'call': outs[0][0], 'sync': os_.brief(), 'async': oa.brief(), 'pending_polls_per_external_future': pend})
            return findings
        fs, inc = explore(prog, h, res.stats)
        res.findings += fs
        res.inconclusive += inc
        res.evals += 1
    return res


def run_walk_case(prog, params):
    """walk_dir consumed item by item on both APIs, with a removal of a not yet delivered entry in between
    (the async stream keeps pending futures and the unconsumed item between polls)"""
    res = CaseResult()
    res.states = 1
    u = UNIVERSES[params['universe']]()
    config, state = params['config'], params['state']

    def h(ex):
        findings = []
        sr = ScriptRunner(ex)
        pends = params.get('pendings', [0, 1, 2])
        pend = pends[ex.choose(len(pends), 'pending polls')]
        ex.hooks['pending'] = lambda ex_, what: pend
        t = build_pair(sr, u, config, state, pend=pend)
        victims = [v for v in u.vars if v != 'R' and t.kind(v) != 'absent']
        when = ex.choose(3, 'remove after k items')           # remove after 0, 1 or 2 delivered items
        victim = victims[ex.choose(len(victims), 'victim')] if victims else None
        key = 'sync_vs_async|%s|walk_dir_stepwise|remove_%s_after_%d' % (config, t.kind(victim) if victim else 'nothing', when)
        outs = {}
        for pfx, tag in (('S_', 'sync'), ('A_', 'async')):
            seq = []
            sr.do('wopen w%s %sR' % (pfx, pfx))
            seq.append(sr.last)
            if not sr.last.ok:
                outs[tag] = seq
                continue
            for step in range(8):
                if step == when and victim is not None:
                    rm = 'remove_dir_all' if t.kind(victim) == 'dir' else 'remove_file'
                    sr.do('%s %s%s' % (rm, pfx, victim))
                sr.do('wnext w%s' % pfx)
                seq.append(sr.last)
                if sr.last.ok and sr.last.value is None:
                    break
            sr.do('wdrop w%s' % pfx)
            outs[tag] = seq
        a, b = outs['sync'], outs['async']
        if len(a) != len(b):
            findings.append(make_finding('C15', key + '|item_count_differs', 'the sync iterator delivers %d steps, the async stream %d: %s vs %s' % (
                len(a), len(b), [o.brief() for o in a], [o.brief() for o in b]), sr, profile='async'))
        else:
            for i, (x, y) in enumerate(zip(a, b)):
                def sval(o):
                    return o.value if type(o.value) is S else None
                same = (x.tag == y.tag) and (x.tag != 'ok' or ((sval(x) is None) == (sval(y) is None) and (sval(x) is None or (
                    len(x.value) == len(y.value) and ex.check(seq_eq(x.value, y.value), 'item') is None))))
                if not same:
                    findings.append(make_finding('C15', key + '|item_differs', 'item %d differs: sync %s, async %s' % (i, x.brief(), y.brief()), sr, profile='async'))
                    break
        for o in a + b:
            if o.tag in ('panic', 'deadlock'):
                findings.append(make_finding('C13', key + '|panic', 'walk_dir stepping panics: %s' % o.msg, sr, profile='async'))
        if not res.samples:
            res.samples.append({'config': config, 'victim': victim, 'remove_after_items': when, 'pending_polls': pend, 'sync_items': [o.brief() for o in a], 'async_items': [o.brief() for o in b]})
        return findings
    fs, inc = explore(prog, h, res.stats)
    res.findings += fs
    res.inconclusive += inc
    res.evals = res.stats.paths
    return res
