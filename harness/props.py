"""Per-property check definitions: which case families are explored in which tier."""
import random

from .framework import Check, load_program, run_cases, quick_selftest
from .core import UNIVERSES, shapes
from . import onestep

REGISTRY = {}


def prop(pid):
    def deco(fn):
        REGISTRY[pid] = fn
        return fn
    return deco


COMMON_ASSUMPTIONS = [
    'code is checked at the level of rustc MIR (nightly dump of /repo working tree, overflow checks on), not machine code',
    'std/hashbrown/Arc/RwLock/Cursor/io::copy/fmt are replaced by contract models (mirsym/models.py); models used are listed in coverage.engine.environment_models_used and validated by the native differential selftest',
    'HashMap iteration order = insertion order unless the harness forks over permutations',
    'SystemTime::now returns a fresh symbolic instant per call',
    'behaviour of MemoryFS depends on internal state only through the abstract tree and timestamps (one inductive step composes)',
]


def step_cases(cfgs, universe, ops, props_, tier, seed, dlens=None, lens=None, release=False, perm=False, max_shapes=None):
    u = UNIVERSES[universe]()
    shs = shapes(u)
    if max_shapes and len(shs) > max_shapes:
        rng = random.Random(seed)
        rng.shuffle(shs)
        shs = shs[:max_shapes]
    cases = []
    for cfg in cfgs:
        for sh in shs:
            cases.append({'cfg': cfg, 'universe': universe, 'shape': sh, 'ops': ops, 'props': props_,
                          'dlens': dlens, 'lens': lens, 'release': release, 'perm': perm})
    return cases


def run_onestep(pid, tier, seed, cfgs_quick, cfgs_thorough, ops, extra_props=(), rule=''):
    ck = Check(pid, tier, seed)
    prog = load_program()
    ck.selftest = quick_selftest(prog, seed, 12 if tier == 'quick' else 150)
    props_ = [pid] + list(extra_props)
    if tier == 'quick':
        cases = step_cases(cfgs_quick, 'U5', ops, props_, tier, seed, dlens=[1])
        ck.bounds = {'universe': 'U5 = {/a,/ab,/a.b,/a/b,/a/b/c} + probes /x,/x/y + root', 'file_bytes': '0..2 symbolic',
                     'written_bytes': '1 symbolic', 'steps': 1, 'configs': cfgs_quick}
    else:
        cases = step_cases(cfgs_thorough, 'U5', ops, props_, tier, seed, dlens=[0, 1, 2])
        cases += step_cases(cfgs_thorough[:2], 'U8', ops, props_, tier, seed, dlens=[1], max_shapes=250)
        ck.bounds = {'universe': 'U5 (all 63 shapes) and U8 (250 seeded shapes)', 'file_bytes': '0..2 symbolic',
                     'written_bytes': '0..2 symbolic', 'steps': 1, 'configs': cfgs_thorough}
    ck.add(run_cases(prog, onestep.run_step_case, cases), 'one inductive step: every op x every path from every well-formed tree')
    ck.assumptions = COMMON_ASSUMPTIONS
    ck.rule = rule or 'a case = (configuration, well-formed tree shape, operation, target path); distinct by construction; non-trivial = the tree shape (states) is non-empty or the operation touches the root'
    return ck.finish(prog)


ALL_OPS = onestep.PRIMS + onestep.OBSERVERS + onestep.COMPOSITES


@prop('C01')
def c01(tier, seed):
    return run_onestep('C01', tier, seed, ['mem', 'alt:/a'], ['mem', 'alt:/a', 'alt:/a/b', 'alt:', 'altalt'],
                       onestep.PRIMS + onestep.OBSERVERS)


@prop('C03')
def c03(tier, seed):
    return run_onestep('C03', tier, seed, ['mem', 'alt:/a'], ['mem', 'alt:/a', 'alt:/a/b', 'altalt'], ALL_OPS)


@prop('C13')
def c13(tier, seed):
    return run_onestep('C13', tier, seed, ['mem'], ['mem', 'alt:/a', 'altalt'], ALL_OPS)
