"""Per-property check definitions: which case families are explored in which tier."""
import random

from .framework import Check, load_program, run_cases, quick_selftest
from .core import UNIVERSES, shapes
from . import onestep

REGISTRY = {}


def prop(pid):
    def deco(fn):
        REGISTRY[pid] = fn
        return fn
    return deco


COMMON_ASSUMPTIONS = [
    'code is checked at the level of rustc MIR (nightly dump of /repo working tree, overflow checks on), not machine code',
    'std/hashbrown/Arc/RwLock/Cursor/io::copy/fmt are replaced by contract models (mirsym/models.py); models used are listed in coverage.engine.environment_models_used and validated by the native differential selftest',
    'HashMap iteration order = insertion order unless the harness forks over permutations',
    'SystemTime::now returns a fresh symbolic instant per call',
    'behaviour of MemoryFS depends on internal state only through the abstract tree and timestamps (one inductive step composes)',
]


def step_cases(cfgs, universe, ops, props_, tier, seed, dlens=None, lens=None, release=False, perm=False, max_shapes=None, tag=None):
    u = UNIVERSES[universe]()
    shs = shapes(u)
    if max_shapes and len(shs) > max_shapes:
        rng = random.Random(seed)
        rng.shuffle(shs)
        shs = shs[:max_shapes]
    cases = []
    for cfg in cfgs:
        for sh in shs:
            cases.append({'cfg': cfg, 'universe': universe, 'shape': sh, 'ops': ops, 'props': props_,
                          'dlens': dlens, 'lens': lens, 'release': release, 'perm': perm, 'tag': tag or 'C01'})
    return cases


def run_onestep(pid, tier, seed, cfgs_quick, cfgs_thorough, ops, extra_props=(), rule='', perm=False, overlay_plan=None, more=()):
    ck = Check(pid, tier, seed)
    prog = load_program()
    ck.selftest = quick_selftest(prog, seed, 12 if tier == 'quick' else 150)
    props_ = [pid] + list(extra_props)
    if tier == 'quick':
        cases = step_cases(cfgs_quick, 'U5', ops, props_, tier, seed, dlens=[1], perm=perm)
        ck.bounds = {'universe': 'U5 = {/a,/ab,/a.b,/a/b,/a/b/c} + probes /x,/x/y + root', 'file_bytes': '0..2 symbolic',
                     'written_bytes': '1 symbolic', 'steps': 1, 'configs': cfgs_quick}
    else:
        # (with the three iteration orders of C05 every case costs three times as much: one written length, fewer U8 shapes)
        cases = step_cases(cfgs_thorough, 'U5', ops, props_, tier, seed, dlens=[0, 1, 2] if not perm else [1], perm=perm)
        cases += step_cases(cfgs_thorough[:2], 'U8', ops, props_, tier, seed, dlens=[1], max_shapes=250 if not perm else 80, perm=perm)
        ck.bounds = {'universe': 'U5 (all 63 shapes) and U8 (250 seeded shapes)', 'file_bytes': '0..2 symbolic',
                     'written_bytes': '0..2 symbolic' if not perm else '1 symbolic', 'steps': 1, 'configs': cfgs_thorough}
    ck.add(run_cases(prog, onestep.run_step_case, cases), 'one inductive step: every op x every path from every well-formed tree')
    scases = step_cases(cfgs_quick[:2] if tier == 'quick' else cfgs_thorough[:2], 'USYM', ops, props_, tier, seed, dlens=[1], perm=perm)
    ck.add(run_cases(prog, onestep.run_step_case, scases), 'same, symbolic-name mode: names are solver variables (lengths 1,3,2 over {a,b,.,_,U+00E9}), siblings distinct')
    if overlay_plan:
        from . import overlay
        ocases = []
        for (universe, nlayers, kw) in overlay_plan:
            ocases += ovl_cases(universe, nlayers, props_, seed, **kw)
        ck.add(run_cases(prog, overlay.run_history_case, ocases), 'overlay bounded histories (same monitors)')
    for fn_, cs_, desc_ in more:
        ck.add(run_cases(prog, fn_, cs_), desc_)
    ck.assumptions = COMMON_ASSUMPTIONS
    ck.rule = rule or 'a case = (configuration, well-formed tree shape, operation, target path); distinct by construction; non-trivial = the tree shape (states) is non-empty or the operation touches the root'
    return ck.finish(prog)


ALL_OPS = onestep.PRIMS + onestep.OBSERVERS + onestep.COMPOSITES


@prop('C01')
def c01(tier, seed):
    from . import overlay
    plan = [('UO3', 2, dict(ncfg=40 if tier == 'quick' else None, k1_ops=overlay.HIST_OPS + overlay.OBS_OPS, k2=6 if tier == 'quick' else 40, recreate=1, tag='C01')),
            ('UO3', 3, dict(ncfg=40 if tier == 'quick' else 200, k1_ops=overlay.HIST_OPS + ['read_dir'], k2=0 if tier == 'quick' else 6, tag='C01')),
            ('UO3', 2, dict(ncfg=30 if tier == 'quick' else 150, k1_ops=overlay.HIST_OPS + ['read_dir'], layer_kind='memsub', tag='C01'))]
    from . import transfer
    # copy/move with a source of the right type are calls of the contract too (parent of the destination a directory, ...)
    tc = transfer.transfer_cases(['same_mem', 'same_alt'] if tier == 'quick' else ['same_mem', 'same_alt', 'two_mem', 'same_ovl', 'same_altalt'], ['C01'], tier, seed)
    if tier == 'quick':
        tc = tc[::2]
    return run_onestep('C01', tier, seed, ['mem', 'alt:/a'], ['mem', 'alt:/a', 'alt:/a/b', 'alt:', 'altalt'],
                       onestep.PRIMS + onestep.OBSERVERS + onestep.COMPOSITES, overlay_plan=plan,
                       more=[(transfer.run_transfer_case, tc, 'copy/move transfers (source of the right type) against the contract'),
                             (overlay.run_history_case, plain_history_cases('U4', 'mem', ['C01'], seed, 12 if tier == 'quick' else 40, 6 if tier == 'quick' else 30, 4, 'C01') +
                              plain_history_cases('U4', 'alt', ['C01'], seed, 6 if tier == 'quick' else 20, 4 if tier == 'quick' else 20, 4, 'C01'),
                              'multi-step histories (4 calls) on one MemoryFS / AltrootFS: state carried between calls beside the tree')])


@prop('C03')
def c03(tier, seed):
    from . import overlay
    plan = [('UO3', 2, dict(ncfg=60 if tier == 'quick' else None, k1_ops=overlay.HIST_OPS, k2=6 if tier == 'quick' else 60, k3=2 if tier == 'quick' else 20, removal_first=True)),
            ('UOW', 2, dict(ncfg=60 if tier == 'quick' else 400, k1_ops=['remove_file', 'remove_dir', 'remove_dir_all'], k2=4 if tier == 'quick' else 20, removal_first=True, then_parent=True)),
            ('UOD', 2, dict(ncfg=50 if tier == 'quick' else None, k1_ops=['remove_dir', 'remove_dir_all', 'remove_file'], k2=2 if tier == 'quick' else 20, removal_first=True)),
            ('USYM', 2, dict(ncfg=30 if tier == 'quick' else None, k1_ops=['remove_dir', 'remove_dir_all', 'remove_file', 'create_dir_all', 'write'], k2=3 if tier == 'quick' else 30, removal_first=True, then_parent=True)),
            ('UO3', 2, dict(ncfg=30 if tier == 'quick' else 150, k1_ops=overlay.HIST_OPS, layer_kind='memsub')),
            ('UO3', 3, dict(ncfg=30 if tier == 'quick' else 150, k1_ops=['remove_dir', 'remove_dir_all', 'write', 'create_dir']))]
    if tier != 'quick':
        plan += [('UO3', 3, dict(ncfg=300, k1_ops=overlay.HIST_OPS, k2=10, removal_first=True)), ('UO4', 2, dict(ncfg=300, k1_ops=overlay.HIST_OPS, k2=10, removal_first=True))]
    from . import transfer
    # transfers belong to "every call": also with a source of the wrong type (copy_file/move_file of a directory, ...)
    tc = transfer.transfer_cases(['same_mem', 'same_alt'] if tier == 'quick' else ['same_mem', 'same_alt', 'same_ovl', 'same_altalt', 'two_mem'], ['C03'], tier, seed)
    if tier == 'quick':
        tc = tc[::2]
    return run_onestep('C03', tier, seed, ['mem', 'alt:/a'], ['mem', 'alt:/a', 'alt:/a/b', 'altalt'], ALL_OPS, overlay_plan=plan,
                       more=[(transfer.run_transfer_case, tc, 'copy/move transfers (right and wrong source types) followed by the well-formedness check')])


@prop('C13')
def c13(tier, seed):
    from . import handles, overlay
    ck = Check('C13', tier, seed)
    prog = load_program()
    ck.selftest = quick_selftest(prog, seed, 12 if tier == 'quick' else 150)
    cfgs = ['mem'] if tier == 'quick' else ['mem', 'alt:/a', 'altalt']
    ucases = step_cases(cfgs, 'U5', ALL_OPS, ['C13'], tier, seed, dlens=[1])
    if tier != 'quick':
        ucases += step_cases(['mem'], 'U8', ALL_OPS, ['C13'], tier, seed, dlens=[1], max_shapes=80)
        ucases += step_cases(['mem'], 'U5', ALL_OPS, ['C13'], tier, seed, dlens=[1], release=True)
    ck.add(run_cases(prog, onestep.run_step_case, ucases), 'every operation (wrong types, root, composites) on every path from every well-formed tree')
    scases = step_cases(['mem'] if tier == 'quick' else ['mem', 'alt:/a'], 'USYM', ALL_OPS, ['C13'], tier, seed, dlens=[1])
    ck.add(run_cases(prog, onestep.run_step_case, scases), 'same in symbolic-name mode (names are solver variables incl. multi-byte characters; siblings may be prefixes of each other)')
    # (the 4-step scripts of the thorough tier run with dev arithmetic; release arithmetic at the 3-step size)
    # the reader/writer/async kernels run at the quick sizes here: their deep tiers are C14's and C15's thorough tiers, where
    # every panic is reported as well; this check spends its thorough budget on configurations instead
    rc = reader_cases('quick', 'C13') + reader_cases('quick', 'C13', release=True)
    ck.add(run_cases(prog, handles.run_reader_case, rc), 'reader scripts with any 64-bit offset, zero-length buffers; dev and release arithmetic')
    ck.add(run_cases(prog, handles.run_writer_case, writer_cases('quick', 'C13')), 'writer sessions')
    ck.add(run_cases(prog, handles.run_lifecycle_case, [{'cfg': c} for c in ['mem', 'alt', 'ovl_upper', 'ovl_lower']]), 'handles used after their file was removed')
    ck.add(run_cases(prog, handles.run_hostile_dir_case, [{'name': n_} for n_ in (b'\xff', b'a\xc3', b'ok', b'\xc3\xa9')] +
                     [{'name': b's', 'kind': 'socket'}, {'name': b'l', 'kind': 'dangling_link'}]),
           'PhysicalFS@OSM over a directory that holds a file with a non-UTF-8 name created behind the library (replayed on a real directory)')
    ocs = ovl_cases('UO3', 2, ['C13'], seed, ncfg=40 if tier == 'quick' else None, k1_ops=overlay.HIST_OPS + overlay.OBS_OPS, k2=4 if tier == 'quick' else 30)
    ck.add(run_cases(prog, overlay.run_history_case, ocs), 'overlay histories')
    from . import altroot
    mc = [{'universe': 'U4', 'P': P_, 'shape': (), 'missing': True,
           'ops': ['create_dir', 'create_dir_all', 'write', 'append', 'remove_dir_all', 'remove_dir', 'remove_file', 'exists', 'read_dir', 'metadata', 'read']} for P_ in ('/a', '/a/b')]
    ck.add(run_cases(prog, altroot.run_confine_case, mc), 'an altroot whose directory P does not exist (a filesystem without a root): no operation panics')
    # the pure path functions (join/parent/filename/extension) on symbolic strings: no input makes them panic
    from . import c06 as c06mod
    la6, lb6 = (5, 5) if tier == 'quick' else (6, 5)
    pk = []
    for la_ in range(la6 + 1):
        for lb_ in range(lb6 + 1):
            if la_ >= 5:
                pk += [{'la': la_, 'lb': lb_, 'panic_only': True, 'prop': 'C13', 'first': f_} for f_ in c06mod.ALPHA if f_ != 0xa9]
            else:
                pk.append({'la': la_, 'lb': lb_, 'panic_only': True, 'prop': 'C13'})
    ck.add(run_cases(prog, c06mod.run_case, pk), 'join/parent/filename/extension on symbolic base and argument strings (|arg| <= %d, |base| <= %d): no panic' % (la6, lb6))
    # panics that need an interleaving: two threads, one call each on overlapping paths of one MemoryFS, every schedule
    from . import threads
    u3 = UNIVERSES['U3']()
    tcalls = [(op, v) for op in C16_OPS for v in ('a', 'a_b')]
    tpairs = [[[c1], [c2]] for i, c1 in enumerate(tcalls) for c2 in tcalls[i:] if (c1[0] in C16_MUT or c2[0] in C16_MUT)]
    tshapes = [(('a', 'd'), ('a_b', 'f')), (('a', 'd'), ('a_b', 'd')), (('a', 'f'),)] if tier == 'quick' else shapes(u3)[::2]
    tcases = [{'cfg': 'mem', 'universe': 'U3', 'shape': sh, 'programs': pr, 'mode': 'linearizable', 'prop': 'C13', 'panic_only': True} for sh in tshapes for pr in tpairs]
    ck.add(run_cases(prog, threads.run_concurrent_case, tcases), 'two concurrent calls on overlapping MemoryFS paths, every interleaving at lock granularity: no schedule panics or deadlocks')
    # the async port: stepwise walks with a removal in between and the reader kernels (panics on either API are C13 findings)
    from . import twins, asynck
    prog_a = load_program(('async-vfs',))
    wsh = [sh for sh in shapes(u3) if len(sh) >= 2]
    wcases = [{'universe': 'U3', 'config': c, 'state': sh} for c in (('mem',) if tier == 'quick' else ('mem', 'alt')) for sh in wsh]
    ck.add(run_cases(prog_a, twins.run_walk_case, wcases), 'async port: walk_dir streams consumed item by item with a removal in between (pending futures 0/1/2)')
    acases = [{'clen': c_, 'k': 3, 'first': f1, 'second': f2} for c_ in range(0, 3) for f1 in range(4) for f2 in range(4)]
    ck.add(run_cases(prog_a, asynck.run_async_reader_case, acases), 'async port: reader kernels on symbolic scripts')
    ck.bounds = {'universe': 'U5 (+U8 thorough)', 'reader': 'content 0..3/4 bytes, scripts of 3/4 steps, any 64-bit offset', 'overlay': 'UO3, 2 layers, k<=2',
                 'threads': '2 threads x 1 call on /a, /a/b of %d trees, all schedules' % len(tshapes), 'async': 'walks over U3 trees with >= 2 entries; reader content 0..2 bytes',
                 'documented_panic_excluded': 'OverlayFS::new(&[])'}
    ck.assumptions = COMMON_ASSUMPTIONS + ['panics inside std/dependencies that the models do not describe are outside the claim; lock poisoning is out of scope',
                                           'async API: stepwise walks and reader kernels here; every call of the twin differential also reports panics of either API (C15); EmbeddedFS: see C18',
                                           'threads: two calls on one MemoryFS, interleavings at lock-acquisition granularity (assumptions of C16)']
    ck.rule = 'every execution path that ends in a panic (MIR assert, modelled library panic, explicit panic!) or a self-deadlock is a counterexample'
    return ck.finish(prog)


@prop('C06')
def c06(tier, seed):
    from . import c06 as mod
    ck = Check('C06', tier, seed)
    prog = load_program()
    ck.selftest = quick_selftest(prog, seed, 8 if tier == 'quick' else 100, kinds=['mem'])
    la_max, lb_max = (6, 5) if tier == 'quick' else (9, 6)
    cases = []
    for la in range(la_max + 1):
        for lb in range(lb_max + 1):
            if la >= 5:
                # split the heavy classes by first (and for the longest arguments second) byte to balance the pool
                for first in mod.ALPHA:
                    if first != 0xa9:
                        cases.append({'la': la, 'lb': lb, 'first': first})
            else:
                cases.append({'la': la, 'lb': lb})
    cases.sort(key=lambda c: -(c['la'] * 10 + c['lb']))
    ck.bounds = {'arg_len': '0..%d bytes' % la_max, 'base_len': '0..%d bytes (canonical by assumption; results asserted canonical)' % lb_max,
                 'alphabet': "'/', '.', 'a', 'b', backslash, space, U+00E9 (C3 A9); every byte a solver variable"}
    ck.add(run_cases(prog, mod.run_case, cases), 'join/parent/filename/extension/root/is_root/== on symbolic base and argument strings')
    ck.assumptions = COMMON_ASSUMPTIONS[:2] + ['base paths are canonical (inductive: every Ok result of join is asserted canonical)',
                                                'characters other than / and . are represented by a, b and one two-byte character']
    ck.rule = 'a state = one (|base|, |arg|[, first byte]) class with all bytes symbolic; transitions = execution paths through join_internal and the observers; non-trivial = |arg| > 0'
    return ck.finish(prog)


# ------------------------------------------------------------------------------------------ overlay

def ovl_cases(universe, nlayers, props_, seed, ncfg=None, k1_ops=None, k2=0, k3=0, removal_first=False, max_nodes=None, layer_kind='mem', k2_first=None, recreate=0, then_parent=False, tag='C09',
              transfers=0, lower_markers=False, recreate_rm=False):
    """cases for overlay.run_history_case: per layer configuration a list of histories"""
    from . import overlay
    u = UNIVERSES[universe]()
    cfgs = overlay.layer_configs(u, nlayers, max_nodes=max_nodes)
    rng = random.Random(seed * 7919 + nlayers)
    if ncfg is not None and len(cfgs) > ncfg:
        rng.shuffle(cfgs)
        cfgs = cfgs[:ncfg]
    vars_ = u.vars
    real = [v for v in vars_ if v != 'R']
    cases = []
    for cfg in cfgs:
        present = [v for v, k, s in cfg]
        hs = []
        for op in (k1_ops or []):
            for v in vars_:
                hs.append([(op, v)])
        mut_first = ['remove_file', 'remove_dir', 'remove_dir_all'] if removal_first else \
            ['remove_file', 'remove_dir', 'remove_dir_all', 'write', 'create_dir', 'append', 'create_dir_all']
        two = [[(o1, v1), (o2, v2)] for o1 in mut_first for v1 in real for o2 in overlay.HIST_OPS for v2 in real]
        rng.shuffle(two)
        hs += two[:k2]
        three = []
        for _ in range(k3):
            v1 = rng.choice(present) if present else rng.choice(real)
            o1 = rng.choice(['remove_file', 'remove_dir', 'remove_dir_all'])
            o2, v2 = rng.choice(['write', 'create_dir', 'create_dir_all', 'append']), rng.choice([v1] + real)
            o3, v3 = rng.choice(overlay.HIST_OPS), rng.choice([v1, v2] + real)
            three.append([(o1, v1), (o2, v2), (o3, v3)])
        hs += three
        if recreate:
            # the core of C10: remove an entry, re-create it (same or other type), observe; optionally once more
            kinds_ = dict((a_, b_) for a_, b_, c_ in cfg)
            for v1 in present:
                rm_ = 'remove_file' if kinds_[v1] == 'f' else 'remove_dir_all'
                for mk in ('create_dir', 'write'):
                    hs.append([(rm_, v1), (mk, v1)])
                    if recreate_rm:
                        # ... and remove the re-created entry again: whatever a lower layer holds at that path stays hidden
                        # (the re-created entry may have the other type than the lower-layer original)
                        hs.append([(rm_, v1), (mk, v1), ('remove_file' if mk == 'write' else 'remove_dir', v1)])
                    if recreate > 1:
                        rm2 = 'remove_file' if mk == 'write' else 'remove_dir'
                        hs.append([(rm_, v1), (mk, v1), (rm2, v1), ('write' if mk == 'create_dir' else 'create_dir', v1)])
        if then_parent:
            kinds_ = dict((a_, b_) for a_, b_, c_ in cfg)
            for v1 in present:
                par = u.parent(v1)
                if par != 'R':
                    rm_ = 'remove_file' if kinds_[v1] == 'f' else 'remove_dir_all'
                    hs.append([(rm_, v1), ('remove_dir', par)])
                    hs.append([(rm_, v1), ('remove_dir_all', par)])
        if transfers:
            # copy/move inside the overlay (source possibly only in a lower layer), optionally followed by one more call
            for tr in overlay.TRANSFERS:
                hs.append([tr])
                if transfers == 2:
                    hs.append([tr, (rng.choice(overlay.HIST_OPS), rng.choice([tr[1], tr[2]] + real))])
                if transfers > 2:
                    # the destination was removed through the overlay earlier (a marker exists for it)
                    kinds_ = dict((a_, b_) for a_, b_, c_ in cfg)
                    dst_ = tr[2]
                    if dst_ in kinds_:
                        hs.append([('remove_file' if kinds_[dst_] == 'f' else 'remove_dir_all', dst_), tr])
                    elif u.parent(dst_) == 'R':
                        hs.append([('write', dst_), ('remove_file', dst_), tr])
        if k2_first:
            # histories that start with the given first calls on entries of this configuration, then any call
            for o1 in k2_first:
                for v1 in present:
                    o2, v2 = rng.choice(overlay.HIST_OPS + overlay.TIME_OPS), rng.choice([v1] + real)
                    hs.append([(o1, v1), (o2, v2)])
        # nodes that the universe declares file-only (the *_wo names of UOW) are never made directories by a history either:
        # a directory named <stem>_wo collides with the marker of <stem> by construction of the marker scheme (reserved name)
        fonly = {n.var for n in u.nodes if tuple(n.kinds) == ('f',)}
        if fonly:
            hs = [h_ for h_ in hs if not any(st_[0] in ('create_dir', 'create_dir_all') and st_[1] in fonly for st_ in h_)]
        cases.append({'universe': universe, 'nlayers': nlayers, 'cfg': cfg, 'histories': hs, 'props': props_, 'layer_kind': layer_kind, 'tag': tag,
                      'lower_markers': lower_markers})
    return cases


def plain_history_cases(universe, kind, props_, seed, nshapes, khist, length, tag):
    """random multi-step histories on one MemoryFS / AltrootFS from seeded trees (same runner as the overlay histories)"""
    from . import overlay
    u = UNIVERSES[universe]()
    rng = random.Random(seed * 31 + length)
    shs = shapes(u)
    rng.shuffle(shs)
    real = [v for v in u.vars if v != 'R']
    ops = overlay.HIST_OPS
    cases = []
    for sh in shs[:nshapes]:
        cfg = tuple((v, k, frozenset([0])) for v, k in sh)
        hs = []
        for _ in range(khist):
            # biased towards rewriting and removing what exists (state carried between calls), then the parent
            h_ = []
            for _j in range(length):
                h_.append((rng.choice(ops), rng.choice(real)))
            hs.append(h_)
        for v, k in sh:
            if k == 'f':
                par = u.parent(v)
                hs.append([('write', v), ('write', v), ('remove_file', v)] + ([('remove_dir', par)] if par != 'R' else []))
                hs.append([('append', v), ('remove_file', v), ('write', v), ('remove_file', v)] + ([('remove_dir', par)] if par != 'R' else []))
            else:
                hs.append([('remove_dir_all', v), ('create_dir', v), ('remove_dir', v)])
        cases.append({'universe': universe, 'nlayers': 1, 'cfg': cfg, 'histories': hs, 'props': props_, 'layer_kind': 'mem', 'tag': tag, 'plain': kind})
    return cases


OVL_ASSUMPTIONS = COMMON_ASSUMPTIONS[:4] + [
    'initial layers are type-compatible (a path present in several layers has the same type in each); type conflicts between layers are outside the bound',
    'overlay-reserved names (.whiteout, *_wo inside it) are not used as user names except the *_wo sibling names of universe UOW',
    'universe USYM: the three entry names are solver variables (lengths 1, 3, 2 over the bytes of {a,b,.,_,U+00E9}, valid UTF-8, siblings distinct); the alphabet cannot spell a reserved name',
    'layer kinds: each layer the root of its own MemoryFS; all layers sub-directories of one MemoryFS (memsub) or of one PhysicalFS on the OS model (physshared, C08)',
    'lower layers are compared through their own observers (exists/metadata/read_dir/read); access times are not compared',
]


def run_overlay(pid, tier, seed, plan, extra_props=(), more=()):
    from . import overlay
    ck = Check(pid, tier, seed)
    prog = load_program()
    ck.selftest = quick_selftest(prog, seed, 10 if tier == 'quick' else 120, kinds=['ovl', 'ovl3', 'altovl', 'ovlalt'])
    props_ = [pid] + list(extra_props)
    cases = []
    desc = []
    for (universe, nlayers, kw) in plan:
        cs = ovl_cases(universe, nlayers, props_, seed, **kw)
        cases += cs
        desc.append('%s x %d layers: %d layer configurations, %d histories' % (universe, nlayers, len(cs), sum(len(c['histories']) for c in cs)))
    cases.sort(key=lambda c: -len(c['histories']))
    ck.bounds = {'plan': desc, 'file_bytes': '0..2 symbolic per file and layer', 'written_bytes': '1 symbolic',
                 'history_length': 'k<=%d' % (4 if any(kw.get('recreate', 0) > 1 for _, _, kw in plan) else 3 if any(kw.get('k3') or kw.get('recreate_rm') for _, _, kw in plan) else 2)}
    ck.add(run_cases(prog, overlay.run_history_case, cases), 'overlay bounded histories from symbolic initial layers')
    for fn_, cs_, desc_ in more:
        ck.add(run_cases(prog, fn_, cs_), desc_)
    ck.assumptions = OVL_ASSUMPTIONS
    ck.rule = 'a state = one assignment of union-tree nodes to layer sets (layer configuration) with symbolic bytes; a transition = one execution path of one history; non-trivial = at least one entry in a lower layer'
    return ck.finish(prog)


@prop('C09')
def c09(tier, seed):
    from . import overlay
    if tier == 'quick':
        plan = [('UO3', 2, dict(k1_ops=overlay.HIST_OPS + overlay.OBS_OPS, k2=12, recreate=1, recreate_rm=True)),
                ('UO3', 3, dict(ncfg=60, k1_ops=overlay.HIST_OPS + ['read_dir'], recreate=1)),
                ('UOW', 2, dict(ncfg=40, k1_ops=['remove_file', 'remove_dir_all', 'write', 'read_dir'])),
                ('UO3', 2, dict(ncfg=40, k1_ops=overlay.HIST_OPS + ['read_dir'], recreate=1, layer_kind='memsub')),
                ('USYM', 2, dict(ncfg=30, k1_ops=overlay.HIST_OPS + overlay.OBS_OPS, k2=4)),
                ('UO4', 2, dict(ncfg=50, k1_ops=['write', 'create_dir', 'append', 'create_dir_all', 'remove_dir']))]
    else:
        plan = [('UO3', 2, dict(k1_ops=overlay.HIST_OPS + overlay.OBS_OPS, k2=150, k3=40, recreate=2)),
                ('UO3', 2, dict(k1_ops=overlay.HIST_OPS + overlay.OBS_OPS, k2=20, recreate=1, layer_kind='memsub')),
                ('USYM', 2, dict(k1_ops=overlay.HIST_OPS + overlay.OBS_OPS, k2=40, k3=10)),
                ('USYM', 3, dict(ncfg=200, k1_ops=overlay.HIST_OPS, k2=5)),
                ('UO3', 3, dict(ncfg=400, k1_ops=overlay.HIST_OPS + overlay.OBS_OPS, k2=20)),
                ('UO4', 2, dict(ncfg=300, k1_ops=overlay.HIST_OPS, k2=20)),
                ('UO3', 1, dict(k1_ops=overlay.HIST_OPS + overlay.OBS_OPS, k2=30)),
                ('UOW', 2, dict(ncfg=300, k1_ops=overlay.HIST_OPS + ['read_dir'], k2=10)),
                ('UO3', 4, dict(ncfg=150, k1_ops=overlay.HIST_OPS))]
    return run_overlay('C09', tier, seed, plan)


@prop('C10')
def c10(tier, seed):
    from . import overlay
    rm = ['remove_file', 'remove_dir', 'remove_dir_all']
    if tier == 'quick':
        plan = [('UO3', 2, dict(k1_ops=rm, k2=10, k3=4, removal_first=True, recreate=1, recreate_rm=True)),
                ('UOW', 2, dict(ncfg=60, k1_ops=rm, k2=8, removal_first=True)),
                ('UO3', 3, dict(ncfg=40, k1_ops=rm, k2=6, removal_first=True, recreate=1)),
                ('USYM', 2, dict(ncfg=30, k1_ops=rm, k2=6, removal_first=True, recreate=1)),
                ('UO4', 2, dict(ncfg=40, k1_ops=['remove_dir_all', 'remove_dir'], k2=2, removal_first=True)),
                ('UO3', 2, dict(ncfg=40, k1_ops=rm, k2=4, removal_first=True, recreate=1, layer_kind='memsub'))]
    else:
        plan = [('UO3', 2, dict(k1_ops=rm, k2=105, k3=60, removal_first=True, recreate=2)),
                ('UO3', 2, dict(k1_ops=rm, k2=20, removal_first=True, recreate=1, layer_kind='memsub')),
                ('USYM', 2, dict(k1_ops=rm, k2=40, k3=10, removal_first=True, recreate=2)),
                ('USYM', 3, dict(ncfg=200, k1_ops=rm, k2=6, removal_first=True, recreate=1)),
                ('UOW', 2, dict(ncfg=500, k1_ops=rm, k2=40, k3=10, removal_first=True)),
                ('UO4', 2, dict(ncfg=300, k1_ops=rm, k2=30, k3=10, removal_first=True)),
                ('UO3', 3, dict(ncfg=400, k1_ops=rm, k2=30, k3=10, removal_first=True)),
                ('UO3', 4, dict(ncfg=150, k1_ops=rm, k2=10, removal_first=True))]
    from . import handles
    life = [{'cfg': c, 'props': ['C10', 'C13']} for c in ('ovl_upper', 'ovl_lower')]
    return run_overlay('C10', tier, seed, plan, more=[(handles.run_lifecycle_case, life, 'handles opened through the overlay and flushed/dropped after the file was removed')])


@prop('C08')
def c08(tier, seed):
    from . import overlay
    if tier == 'quick':
        plan = [('UO3', 2, dict(k1_ops=overlay.HIST_OPS + overlay.OBS_OPS + overlay.TIME_OPS, k2=6)),
                ('UO3', 3, dict(ncfg=40, k1_ops=overlay.HIST_OPS + overlay.TIME_OPS)),
                ('USYM', 2, dict(ncfg=30, k1_ops=overlay.HIST_OPS + overlay.TIME_OPS, k2=3)),
                ('UOT', 2, dict(ncfg=60, transfers=1)),
                ('UOT', 3, dict(ncfg=30, transfers=1)),
                ('UO3', 2, dict(ncfg=40, k1_ops=overlay.HIST_OPS, layer_kind='memsub')),
                ('UO3', 2, dict(ncfg=30, k1_ops=['write', 'create_dir', 'create_dir_all', 'append', 'remove_file', 'read_dir'], lower_markers=True)),
                ('UO3', 2, dict(ncfg=40, k1_ops=['append', 'write', 'remove_file', 'create_dir_all'], k2_first=['append'], layer_kind='physshared'))]
    else:
        plan = [('UO3', 2, dict(k1_ops=overlay.HIST_OPS + overlay.OBS_OPS + overlay.TIME_OPS, k2=80, k3=20)),
                ('UO3', 3, dict(ncfg=400, k1_ops=overlay.HIST_OPS + overlay.OBS_OPS + overlay.TIME_OPS, k2=20)),
                ('UO4', 2, dict(ncfg=300, k1_ops=overlay.HIST_OPS + overlay.TIME_OPS, k2=20)),
                ('UO3', 4, dict(ncfg=150, k1_ops=overlay.HIST_OPS, k2=5)),
                ('USYM', 2, dict(k1_ops=overlay.HIST_OPS + overlay.TIME_OPS, k2=30)),
                ('UOT', 2, dict(transfers=2)),
                ('UOT', 3, dict(ncfg=300, transfers=2)),
                ('UO3', 2, dict(k1_ops=overlay.HIST_OPS, k2=10, layer_kind='memsub')),
                ('UO3', 2, dict(k1_ops=overlay.HIST_OPS + ['read_dir'], k2=10, lower_markers=True)),
                ('UO3', 3, dict(ncfg=200, k1_ops=overlay.HIST_OPS, lower_markers=True)),
                ('UO3', 2, dict(k1_ops=overlay.HIST_OPS + overlay.TIME_OPS, k2=10, k2_first=['append', 'write'], layer_kind='physshared'))]
    return run_overlay('C08', tier, seed, plan)


# ------------------------------------------------------------------------------------------ handles

def reader_cases(tier, prop_, release=False):
    cases = []
    cfgs = ['mem', 'alt', 'ovl_lower'] if tier == 'quick' else ['mem', 'alt', 'ovl_lower', 'ovl_upper']
    k = 3 if tier == 'quick' else 4
    for cfg in cfgs:
        for clen in range(0, 4 if tier == 'quick' else 5):
            if cfg != 'mem' and clen not in (0, 2):
                continue
            kk = k if cfg == 'mem' else min(k, 2)
            if kk >= 3:
                # split the script space by its first step so that the pool is balanced
                for first in range(5):
                    for second in range(5):
                        cases.append({'cfg': cfg, 'clen': clen, 'k': kk, 'prop': prop_, 'release': release, 'first': first, 'second': second})
            else:
                cases.append({'cfg': cfg, 'clen': clen, 'k': kk, 'prop': prop_, 'release': release})
    return cases


def writer_cases(tier, prop_, phys=False, phys_create_only=False):
    cases = []
    cfgs = ['mem', 'alt', 'ovl_lower', 'ovl_upper'] + (['phys'] if phys else []) + (['ovl3'] if prop_ == 'C04' else [])
    k = 2 if tier == 'quick' else 3
    for cfg in cfgs:
        seqs = [('create',), ('append',), ('create', 'append'), ('append', 'append')]
        if tier != 'quick':
            seqs += [('append', 'create'), ('create', 'create'), ('create', 'append', 'append')]
        if cfg == 'phys' and phys_create_only:
            # an O_APPEND file reports offset 0 until its first write and ignores seeks for writing: the cursor contract
            # of C14 is about the library's own handles; create handles of PhysicalFS are plain files and do follow it
            seqs = [('create',), ('create', 'create')]
        if tier != 'quick' and cfg not in ('mem', 'alt'):
            seqs = seqs[:4] if not (cfg == 'phys' and phys_create_only) else seqs      # deeper scripts on mem/alt only (time budget)
        for modes in seqs:
            kk = (k + 1 if tier == 'quick' else k) if (cfg == 'mem' and len(modes) == 1) else max(1, k - 1)
            if len(modes) == 3 or (tier != 'quick' and cfg not in ('mem', 'alt') and len(modes) > 1):
                kk = 1
            cases.append({'cfg': cfg, 'k': kk, 'sessions': len(modes), 'modes': modes, 'prop': prop_, 'pre': 2})
        if not (cfg == 'phys' and phys_create_only):
            cases.append({'cfg': cfg, 'k': 1, 'sessions': 1, 'modes': ('append',), 'prop': prop_, 'pre': None})
        cases.append({'cfg': cfg, 'k': k, 'sessions': 1, 'modes': ('create',), 'prop': prop_, 'pre': None})
    if prop_ == 'C04':
        # no session at all (the file only exists in a lower layer), then the aliasing copy onto the upper layer's own path
        for cfg in ('ovl_lower', 'ovl3'):
            cases.append({'cfg': cfg, 'k': 0, 'sessions': 0, 'modes': (), 'prop': prop_, 'pre': 2, 'alias_copy': True})
            cases.append({'cfg': cfg, 'k': 1, 'sessions': 1, 'modes': ('append',), 'prop': prop_, 'pre': 2, 'alias_copy': True})
    # split the heavy script spaces (by the first step and by the final transfer) so that the pool is balanced
    out = []
    for c in cases:
        if c['k'] * c['sessions'] >= 2:
            for first in range(5):
                for xf in range(3):
                    out.append(dict(c, first=first, xfer=xf))
        else:
            out.append(c)
    return out


HANDLE_ASSUMPTIONS = COMMON_ASSUMPTIONS[:2] + [
    'std::io::Cursor<Vec<u8>> is a contract model (seek: checked signed add; write: zero-fill); validated against the real Cursor by the native selftest',
    'writer seeks are constrained so that the write position stays within 4 bytes of the end (zero-fill gap bound)',
    'io::copy / read_to_end use a 2-byte model buffer (the real 8 KiB constant is std-internal)',
]


@prop('C14')
def c14(tier, seed):
    from . import handles
    ck = Check('C14', tier, seed)
    prog = load_program()
    ck.selftest = quick_selftest(prog, seed, 12 if tier == 'quick' else 150, kinds=['mem', 'alt', 'ovl'])
    ck.add(run_cases(prog, handles.run_reader_case, reader_cases(tier, 'C14')), 'reader scripts vs reference cursor (symbolic 64-bit offsets)')
    ck.add(run_cases(prog, handles.run_writer_case, writer_cases(tier, 'C14', phys=True, phys_create_only=True)), 'writer sessions vs reference growable cursor (MemoryFS, adapters; create handles of PhysicalFS@OSM)')
    ck.bounds = {'content': '0..%d symbolic bytes' % (3 if tier == 'quick' else 4), 'reader_script_steps': 3 if tier == 'quick' else 4,
                 'offsets': 'any 64-bit value (solver variable)', 'read_buffer_sizes': [0, 1, 3], 'writer_script_steps': 2 if tier == 'quick' else 3}
    ck.assumptions = HANDLE_ASSUMPTIONS
    ck.rule = 'a state = (configuration, content length, session modes); a transition = one execution path of one script; all scripts of the bounded length are explored'
    return ck.finish(prog)


@prop('C04')
def c04(tier, seed):
    from . import handles
    ck = Check('C04', tier, seed)
    prog = load_program()
    ck.selftest = quick_selftest(prog, seed, 12 if tier == 'quick' else 150, kinds=['mem', 'alt', 'ovl'])
    ck.add(run_cases(prog, handles.run_writer_case, writer_cases(tier, 'C04', phys=True)), 'write sessions (create/append x write/seek/flush) + fresh reads, metadata len, copy/move; MemoryFS, adapters, PhysicalFS@OSM')
    ck.bounds = {'sessions': '1..3 per file', 'script_steps': 2 if tier == 'quick' else 3, 'written_bytes': '1..2 symbolic per write',
                 'o_append': 'append handles of PhysicalFS: writes and flushes only (seeks do not move the write position of an O_APPEND file)',
                 'pre_existing_bytes': '0 or 2 symbolic', 'read_buffer_sizes': [1, 3]}
    ck.assumptions = HANDLE_ASSUMPTIONS
    ck.rule = 'a state = (configuration, session modes, pre-existing content); transitions = execution paths over all scripts of the bounded length'
    return ck.finish(prog)


@prop('C05')
def c05(tier, seed):
    from . import overlay, handles
    plan = [('UO3', 2, dict(ncfg=50 if tier == 'quick' else None, k1_ops=overlay.HIST_OPS, k2=3 if tier == 'quick' else 30, recreate=1)),
            ('UOW', 2, dict(ncfg=30 if tier == 'quick' else 300, k1_ops=['remove_file', 'remove_dir_all', 'write'], k2=2 if tier == 'quick' else 10)),
            ('USYM', 2, dict(ncfg=20 if tier == 'quick' else None, k1_ops=overlay.HIST_OPS, k2=2 if tier == 'quick' else 20)),
            ('UO3', 2, dict(ncfg=25 if tier == 'quick' else 150, k1_ops=overlay.HIST_OPS, layer_kind='memsub'))]
    if tier != 'quick':
        plan.append(('UO3', 3, dict(ncfg=200, k1_ops=overlay.HIST_OPS, k2=5)))
    from . import transfer
    tc = transfer.transfer_cases(['same_mem'] if tier == 'quick' else ['same_mem', 'same_alt', 'same_ovl'], ['C05'], tier, seed)
    if tier == 'quick':
        tc = tc[::2]
    return run_onestep('C05', tier, seed, ['mem', 'alt:/a'], ['mem', 'alt:/a', 'alt:/a/b', 'altalt'], onestep.PRIMS + onestep.COMPOSITES + ['exists'],
                       perm=True, overlay_plan=plan,
                       more=[(transfer.run_transfer_case, tc, 'observer consistency after copy/move transfers'),
                             (handles.run_lifecycle_case, [{'cfg': c, 'props': ['C05', 'C13']} for c in ('mem', 'alt', 'ovl_upper', 'ovl_lower')],
                              'observer consistency about a path whose old handle is flushed/dropped after the path was removed')])


@prop('C12')
def c12(tier, seed):
    from . import overlay
    plan = [('UO3', 2, dict(ncfg=50 if tier == 'quick' else None, k1_ops=overlay.HIST_OPS + overlay.OBS_OPS, k2=3 if tier == 'quick' else 30))]
    if tier != 'quick':
        plan.append(('UO3', 3, dict(ncfg=200, k1_ops=overlay.HIST_OPS + overlay.OBS_OPS, k2=5)))
    from . import transfer
    from . import faults
    fu = UNIVERSES['UO3']()
    fops = [(op, v) for op in faults.OPS1 for v in fu.vars]
    fshs = shapes(fu)
    fcases = [{'universe': 'UO3', 'config': cfg_, 'state': sh, 'ops': fops, 'props': ['C12']} for cfg_ in ('plain', 'alt') for sh in fshs[::(3 if tier == 'quick' else 1)]]
    ocfgs = overlay.layer_configs(fu, 2)
    for oc in ocfgs[::(12 if tier == 'quick' else 2)]:
        fcases.append({'universe': 'UO3', 'config': 'ovl', 'state': oc, 'ops': fops, 'props': ['C12']})
    tc = transfer.transfer_cases(['same_mem', 'two_mem', 'same_alt', 'same_altalt', 'mem_to_alt', 'same_phys'] if tier == 'quick' else transfer.PAIRS, ['C12'], tier, seed)
    from . import handles
    hostile = [{'name': b's', 'kind': 'socket', 'props': ['C12', 'C13']}, {'name': b'l', 'kind': 'dangling_link', 'props': ['C12', 'C13']}]
    return run_onestep('C12', tier, seed, ['mem', 'alt:/a'], ['mem', 'alt:/a', 'alt:/a/b', 'altalt'], ALL_OPS, overlay_plan=plan,
                       more=[(transfer.run_transfer_case, tc, 'transfer operations between instance pairs (error-path monitor)'),
                             (faults.run_fault_case, fcases, 'error-path monitor under one injected underlying failure at every call position'),
                             (handles.run_hostile_dir_case, hostile, 'PhysicalFS@OSM: create_dir on a name occupied by a unix socket / a dangling symbolic link reports file-exists (replayed on a real directory)')])


@prop('C11')
def c11(tier, seed):
    from . import transfer
    ck = Check('C11', tier, seed)
    prog = load_program()
    ck.selftest = quick_selftest(prog, seed, 12 if tier == 'quick' else 150)
    if tier == 'quick':
        pairs, bufs = ['same_mem', 'two_mem', 'same_alt', 'mem_to_alt', 'same_ovl', 'same_phys', 'phys_to_mem'], (2,)
    else:
        pairs, bufs = transfer.PAIRS, (1, 2)
    cases = transfer.transfer_cases(pairs, ['C11'], tier, seed, bufs)
    ck.add(run_cases(prog, transfer.run_transfer_case, cases), 'copy_file/move_file/copy_dir/move_dir between instance pairs, every source tree x destination situation')
    scases = transfer.transfer_cases(['same_mem', 'two_mem'] if tier == 'quick' else ['same_mem', 'two_mem', 'same_alt', 'mem_to_alt'], ['C11'], tier, seed, (2,), universe='UTS')
    ck.add(run_cases(prog, transfer.run_transfer_case, scases), 'same with symbolic child names (solver decides how names of nested entries relate to their directory name)')
    comp = step_cases(['mem', 'alt:/a'] if tier == 'quick' else ['mem', 'alt:/a', 'altalt'], 'U5', onestep.COMPOSITES, ['C11'], tier, seed, tag='C11')
    ck.add(run_cases(prog, onestep.run_step_case, comp), 'create_dir_all / remove_dir_all from every well-formed tree on every path')
    from . import overlay
    oc = ovl_cases('UO4', 2, ['C11'], seed, ncfg=60 if tier == 'quick' else None, k1_ops=['remove_dir_all', 'create_dir_all'], tag='C11')
    ck.add(run_cases(prog, overlay.run_history_case, oc), 'create_dir_all / remove_dir_all through an overlay over nested lower-layer trees')
    ot = ovl_cases('UOT', 2, ['C11'], seed, ncfg=50 if tier == 'quick' else None, transfers=3, tag='C11')
    ck.add(run_cases(prog, overlay.run_history_case, ot), 'copy/move inside one overlay with pre-populated lower layers, also onto a destination that was removed through the overlay before')
    ck.bounds = {'universe': 'UT: source {a, a/b, a/b/c, f}, destination {x, x/b, x/b/c}', 'instance_pairs': pairs, 'file_bytes': '0..3 symbolic',
                 'io_copy_model_buffer': list(bufs), 'excluded': 'destination inside the source subtree (documented non-termination), wrong-type sources (unspecified)'}
    ck.assumptions = COMMON_ASSUMPTIONS + ['io::copy is a loop over the real reader/writer with a small model buffer (the 8 KiB constant of std is outside the claim)']
    ck.rule = 'a state = (instance pair, source tree shape, destination situation); a transition = one transfer call path; non-trivial = source exists'
    return ck.finish(prog)


@prop('C07')
def c07(tier, seed):
    from . import altroot
    ck = Check('C07', tier, seed)
    prog = load_program()
    ck.selftest = quick_selftest(prog, seed, 12 if tier == 'quick' else 150, kinds=['alt', 'altovl', 'ovlalt', 'mem'])
    lp_max, lq_max = (4, 4) if tier == 'quick' else (5, 6)
    kc = [{'lp': lp, 'lq': lq} for lp in range(lp_max + 1) for lq in range(lq_max + 1)]
    ck.add(run_cases(prog, altroot.run_kernel_case, kc), 'AltrootFS::path(q) = P + q on symbolic canonical P and q')
    pk = [{'lq': lq} for lq in range(0, (6 if tier == 'quick' else 8) + 1)]
    ck.add(run_cases(prog, altroot.run_phys_kernel_case, pk), 'PhysicalFS::get_path(q) on symbolic canonical q resolves to root + q (PathBuf::join and lexical OS resolution from the OS model)')
    u = UNIVERSES['U4' if tier == 'quick' else 'U5']()
    shs = shapes(u)
    ops = onestep.PRIMS + ['read', 'read_dir', 'exists', 'create_dir_all', 'remove_dir_all']
    Ps = ['/a', '/a/b'] if tier == 'quick' else ['', '/a', '/a/b']
    cases = []
    for P in Ps:
        for sh in shs:
            cases.append({'universe': u.tag, 'P': P, 'shape': sh, 'ops': ops})
    for P in ['/a', '/a/b']:
        cases.append({'universe': u.tag, 'P': P, 'shape': (), 'ops': ['create_dir', 'create_dir_all', 'write', 'remove_dir_all', 'exists'], 'missing': True})
        for sh in shs[:: (6 if tier == 'quick' else 1)]:
            cases.append({'universe': u.tag, 'P': P, 'shape': sh, 'ops': ['write', 'append', 'remove_file', 'remove_dir', 'remove_dir_all', 'create_dir', 'create_dir_all', 'read'], 'hostile': True})
    ck.add(run_cases(prog, altroot.run_confine_case, cases), 'exactness and confinement: every op on every path (and through hostile join strings) from every well-formed state')
    ck.bounds = {'kernel': '|P| <= %d, |q| <= %d bytes, alphabet {/ . a b backslash space U+00E9}' % (lp_max, lq_max), 'altroot_dirs': Ps, 'universe': u.tag,
                 'hostile_join_strings': altroot.HOSTILE, 'physical': 'PhysicalFS::get_path on |q| <= %d bytes over the OS model (symlinks aside); operations of PhysicalFS on the real kernel are not encoded' % (6 if tier == 'quick' else 8)}
    ck.assumptions = COMMON_ASSUMPTIONS + ['the path API only hands canonical paths to a backend (checked by C06); calling the FileSystem trait of an altroot directly with a non-canonical string is outside']
    ck.rule = 'a state = (P, well-formed tree in the altroot view, entries beside and above P); transitions = call paths; kernel: (|P|,|q|) classes with symbolic bytes'
    return ck.finish(prog)


@prop('C19')
def c19(tier, seed):
    from . import times
    ck = Check('C19', tier, seed)
    prog = load_program()
    ck.selftest = quick_selftest(prog, seed, 12 if tier == 'quick' else 150, kinds=['mem', 'alt', 'ovl'])
    cases = [{'cfg': c, 'kind': k, 'steps': 2 if tier == 'quick' else 3} for c in ['mem', 'alt', 'ovl_upper', 'ovl_lower', 'ovl_both', 'phys', 'alt_phys'] for k in ['file', 'dir']]
    cases += [{'cfg': c, 'kind': 'root', 'steps': 2 if tier == 'quick' else 3} for c in ['mem', 'alt', 'ovl_upper', 'phys']]
    ck.add(run_cases(prog, times.run_times_case, cases), 'setter sequences with symbolic SystemTime values on files and directories')
    ck.bounds = {'configs': ['mem', 'alt', 'ovl_upper', 'ovl_lower', 'ovl_both', 'phys', 'alt_phys'], 'entries': 'a file, a directory, the filesystem root',
                 'setter_sequence_length': 2 if tier == 'quick' else 3,
                 'time_values': 'any 64-bit instant (solver variable); SystemTime::now = fresh symbolic instant',
                 'physical': 'PhysicalFS and AltrootFS over it run on the OS model (filetime::set_file_mtime/atime as stores into the modelled inode; creation time NotSupported); counterexamples are replayed on a real directory',
                 'not_encoded': 'sub-second truncation of a real filesystem, other platforms'}
    ck.assumptions = COMMON_ASSUMPTIONS[:4] + ['SystemTime is an opaque 64-bit instant compared by equality/order']
    ck.rule = 'a state = (configuration, entry kind); transitions = all sequences of setters of the bounded length with symbolic instants'
    return ck.finish(prog)


@prop('C20')
def c20(tier, seed):
    from . import faults, overlay
    ck = Check('C20', tier, seed)
    prog = load_program()
    ck.selftest = quick_selftest(prog, seed, 12 if tier == 'quick' else 150)
    rng = random.Random(seed)
    uname = 'UO3'
    u = UNIVERSES[uname]()
    cases = []
    ops = [(op, v) for op in faults.OPS1 for v in u.vars]
    shs = shapes(u)
    for config in ('plain', 'alt'):
        sel = shs if tier != 'quick' else shs[::2]
        for sh in sel:
            cases.append({'universe': uname, 'config': config, 'state': sh, 'ops': ops})
    cfgs = overlay.layer_configs(u, 2)
    rng.shuffle(cfgs)
    for cfg in cfgs[:(25 if tier == 'quick' else len(cfgs))]:
        cases.append({'universe': uname, 'config': 'ovl', 'state': cfg, 'ops': ops if tier != 'quick' else rng.sample(ops, 30)})
        present = [v for v, k_, s_ in cfg]
        if present:
            pv = rng.choice(present)
            mut = [(o_, v_) for o_ in ('create_dir', 'write', 'create_dir_all', 'append', 'exists', 'read_dir', 'remove_dir_all') for v_ in u.vars]
            cases.append({'universe': uname, 'config': 'ovl', 'state': cfg, 'pre': [('remove_dir_all' if dict((a, b) for a, b, c in cfg)[pv] == 'd' else 'remove_file', pv)],
                          'ops': mut if tier != 'quick' else rng.sample(mut, 14) + [('write', pv), ('create_dir', pv)]})
    ck.add(run_cases(prog, faults.run_fault_case, cases), 'one injected failure at every position k of every underlying call sequence')
    from . import transfer
    ut = UNIVERSES['UT']()
    tsh = [sh for sh in shapes(ut) if not any(v in dict(sh) for v in ('x', 'x_b', 'x_b_c')) and 'a' in dict(sh)]
    tops = [('copy_file', 'f', 'x'), ('move_file', 'f', 'x'), ('copy_file', 'a_b', 'x'), ('move_file', 'a_b_c', 'x'), ('copy_dir', 'a', 'x'), ('move_dir', 'a', 'x')]
    tcases = [{'universe': 'UT', 'config': 'plain', 'state': sh, 'ops': tops} for sh in (tsh if tier != 'quick' else tsh[::2])]
    ck.add(run_cases(prog, faults.run_fault_case, tcases), 'copy_file/move_file/copy_dir/move_dir under one injected failure at every call position')
    ck.bounds = {'universe': uname, 'faults_per_operation': 1, 'configs': ['VfsPath composites over a failing MemoryFS', 'AltrootFS over it', 'OverlayFS over two of them (fault in either layer)'],
                 'operations': faults.OPS1 + faults.OPS2}
    ck.assumptions = COMMON_ASSUMPTIONS[:4] + ['a failing underlying call returns io::Error(Other) without touching the filesystem']
    ck.rule = 'a state = (configuration, tree / layer assignment); a transition = one (operation, target, failing call index k) run; k ranges over all calls of the fault-free run'
    return ck.finish(prog)


# ------------------------------------------------------------------------------------------ threads

C16_OPS = ['create_dir', 'write', 'append', 'remove_file', 'remove_dir', 'exists', 'metadata', 'read_dir', 'read']
C16_MUT = ['create_dir', 'write', 'append', 'remove_file', 'remove_dir']
THREAD_ASSUMPTIONS = COMMON_ASSUMPTIONS[:4] + [
    'interleavings are explored at lock-acquisition granularity: all state shared between threads of MemoryFS lives behind its one RwLock, code between two acquisitions touches thread-local data only (data-race freedom of RwLock)',
    'a write session is two calls (create_file/append_file + handle write, then drop); which error kind a failing call reports is not compared',
    'lock poisoning is out of scope; schedule counterexamples are replayed natively through the cfg(manuel_woelker_rust_vfs_verif) yield hook',
]


@prop('C16')
def c16(tier, seed):
    from . import threads
    ck = Check('C16', tier, seed)
    prog = load_program()
    ck.selftest = quick_selftest(prog, seed, 8 if tier == 'quick' else 100, kinds=['mem'])
    rng = random.Random(seed)
    u = UNIVERSES['U3']()
    shs = shapes(u)
    calls = [(op, v) for op in C16_OPS for v in ('a', 'a_b', 'ab')]
    pairs = []
    for i, c1 in enumerate(calls):
        for c2 in calls[i:]:
            if c1[0] not in C16_MUT and c2[0] not in C16_MUT:
                continue
            related = c1[1] == c2[1] or {c1[1], c2[1]} == {'a', 'a_b'}
            if related:
                pairs.append([[c1], [c2]])
    cases = []
    for sh in shs:
        for pr in pairs:
            cases.append({'cfg': 'mem', 'universe': 'U3', 'shape': sh, 'programs': pr, 'mode': 'linearizable'})
    if tier == 'quick':
        rep = [(), (('a', 'd'),), (('a', 'd'), ('a_b', 'd')), (('a', 'd'), ('a_b', 'f')), (('a', 'f'),), (('a', 'd'), ('ab', 'f'), ('a_b', 'f'))]
        cases = [c for c in cases if c['shape'] in rep]
    rng.shuffle(cases)
    extra = []
    if tier != 'quick':
        # 2 threads x 2 calls and 3 threads x 1 call, sampled
        for _ in range(500):
            sh = rng.choice(shs)
            extra.append({'cfg': 'mem', 'universe': 'U3', 'shape': sh, 'programs': [[rng.choice(calls), rng.choice(calls)], [rng.choice(calls)]], 'mode': 'linearizable'})
        for _ in range(300):
            sh = rng.choice(shs)
            extra.append({'cfg': 'mem', 'universe': 'U3', 'shape': sh, 'programs': [[rng.choice(calls)], [rng.choice(calls)], [rng.choice(calls)]], 'mode': 'linearizable'})
        for _ in range(200):
            sh = rng.choice(shs)
            extra.append({'cfg': rng.choice(['alt', 'ovl']), 'universe': 'U3', 'shape': sh, 'programs': [[rng.choice(calls)], [rng.choice(calls)]], 'mode': 'linearizable',
                          'preemption_bound': 2})
    ck.add(run_cases(prog, threads.run_concurrent_case, cases), '2 threads x 1 call on overlapping paths, every interleaving at lock granularity')
    # the same with solver-chosen names: every relation between the names (prefix, dotted, multi-byte) is decided per schedule
    us = UNIVERSES['USYM']()
    scalls = [(op, v) for op in C16_OPS for v in ('n1', 'n1_n3', 'n2')]
    spairs = [[[c1], [c2]] for i, c1 in enumerate(scalls) for c2 in scalls[i:]
              if (c1[0] in C16_MUT or c2[0] in C16_MUT) and (c1[1] == c2[1] or {c1[1], c2[1]} == {'n1', 'n1_n3'})]
    scases = [{'cfg': 'mem', 'universe': 'USYM', 'shape': sh, 'programs': pr, 'mode': 'linearizable'} for sh in shapes(us) for pr in spairs]
    rng.shuffle(scases)
    if tier == 'quick':
        scases = scases[:160]
    ck.add(run_cases(prog, threads.run_concurrent_case, scases), 'same with symbolic entry names (universe USYM), every interleaving')
    # one call against a two-call program on the same directory: a session / creation of /a/b against "remove the child, then
    # the parent" and "create the parent, then the child" (state that one thread's first call leaves for its second)
    two = []
    for sh in [(('a', 'd'), ('a_b', 'f')), (('a', 'd'),), (('a', 'd'), ('a_b', 'd'))]:
        for c1 in [('write', 'a_b'), ('append', 'a_b'), ('create_dir', 'a_b'), ('remove_file', 'a_b')]:
            for p2 in ([('remove_file', 'a_b'), ('remove_dir', 'a')], [('remove_dir', 'a_b'), ('remove_dir', 'a')], [('write', 'a_b'), ('remove_file', 'a_b')],
                       [('remove_dir', 'a'), ('create_dir', 'a')]):
                two.append({'cfg': 'mem', 'universe': 'U3', 'shape': sh, 'programs': [[c1], list(p2)], 'mode': 'linearizable', 'final_listing': True})
        for c1 in [('create_dir', 'a_b'), ('write', 'a_b'), ('remove_file', 'a_b'), ('remove_dir', 'a_b')]:
            # a listing that races with a change of the listed directory, and is asked for again afterwards
            two.append({'cfg': 'mem', 'universe': 'U3', 'shape': sh, 'programs': [[c1], [('read_dir', 'a'), ('read_dir', 'a')]], 'mode': 'linearizable', 'final_listing': True})
    ck.add(run_cases(prog, threads.run_concurrent_case, two), '1 call against a 2-call program on one directory (child, then parent), every interleaving')
    if extra:
        ck.add(run_cases(prog, threads.run_concurrent_case, extra), '2x2, 3x1 calls and adapters over MemoryFS (sampled programs, every interleaving)')
    ck.bounds = {'threads': '2 (quick; 1 call each, plus 48 targeted 1x2-call programs); 2x2 and 3x1 sampled (thorough)', 'universe': 'U3 = {/a,/ab,/a/b}', 'interleaving_granularity': 'lock acquisition',
                 'programs_quick': 'all %d related call pairs from 6 representative trees (thorough: all %d trees)' % (len(pairs), len(shs))}
    ck.assumptions = THREAD_ASSUMPTIONS
    ck.rule = 'a state = (initial tree, thread programs); a transition = one complete interleaving (schedule) explored on the real MIR; all schedules of each program are enumerated'
    return ck.finish(prog)


@prop('C17')
def c17(tier, seed):
    from . import threads
    ck = Check('C17', tier, seed)
    prog = load_program()
    ck.selftest = quick_selftest(prog, seed, 8 if tier == 'quick' else 100, kinds=['mem', 'alt', 'ovl'])
    u = UNIVERSES['U4']()
    dshapes = [sh for sh in shapes(u) if all(k == 'd' for _, k in sh)]
    targets = ['a', 'a_b', 'a_b_c', 'ab']
    cases = []
    for cfg in (['mem', 'alt', 'ovl', 'ovl_lowerpre', 'ovl_removed'] if tier != 'quick' else ['mem', 'ovl', 'ovl_lowerpre', 'ovl_removed']):
        for sh in dshapes:
            for i, t1 in enumerate(targets):
                for t2 in targets[i:]:
                    if cfg == 'ovl' and tier == 'quick' and len(sh) > 1:
                        continue
                    if cfg == 'ovl_removed' and (not sh or (tier == 'quick' and (len(sh) > 2 or t1 in ('ab', 'a_b_c') or t2 in ('ab', 'a_b_c')))):
                        continue
                    if cfg == 'ovl_lowerpre' and (not sh or (tier == 'quick' and (len(sh) > 2 or t1 == 'ab' or t2 == 'ab'))):
                        continue
                    cases.append({'cfg': cfg, 'universe': 'U4', 'shape': sh, 'programs': [[('create_dir_all', t1)], [('create_dir_all', t2)]], 'mode': 'all_ok',
                                  'preemption_bound': None if cfg == 'mem' else (1 if tier == 'quick' else 2)})
    if tier != 'quick':
        rng = random.Random(seed)
        for _ in range(120):
            cases.append({'cfg': 'mem', 'universe': 'U4', 'shape': rng.choice(dshapes),
                          'programs': [[('create_dir_all', rng.choice(targets))] for _ in range(3)], 'mode': 'all_ok'})
    ck.add(run_cases(prog, threads.run_concurrent_case, cases), 'concurrent create_dir_all on overlapping paths, every interleaving at lock granularity')
    # different children below a shared ancestor (which may exist only in a lower layer of an overlay)
    us = UNIVERSES['U4S']()
    ssh = [sh for sh in shapes(us) if all(k == 'd' for _, k in sh) and len(sh) <= 2]
    stg = ['a_b', 'a_c', 'a_b_d']
    sib = []
    for cfg in (['mem', 'ovl', 'ovl_lowerpre'] if tier == 'quick' else ['mem', 'alt', 'ovl', 'ovl_lowerpre']):
        for sh in ssh:
            if cfg == 'ovl_lowerpre' and not sh:
                continue
            for i, t1 in enumerate(stg):
                for t2 in stg[i + 1:]:
                    sib.append({'cfg': cfg, 'universe': 'U4S', 'shape': sh, 'programs': [[('create_dir_all', t1)], [('create_dir_all', t2)]], 'mode': 'all_ok',
                                'preemption_bound': None if cfg == 'mem' else (1 if tier == 'quick' else 2)})
    ck.add(run_cases(prog, threads.run_concurrent_case, sib), 'concurrent create_dir_all of different children below a shared ancestor (in the upper layer, or only in a lower layer)')
    ud = UNIVERSES['USYMD']()
    dsh = [sh for sh in shapes(ud) if all(k == 'd' for _, k in sh)]
    stargets = ['n1', 'n1_n2', 'n1_n2_n3', 'n4']
    scases = [{'cfg': 'mem', 'universe': 'USYMD', 'shape': sh, 'programs': [[('create_dir_all', t1)], [('create_dir_all', t2)]], 'mode': 'all_ok'}
              for sh in dsh for i, t1 in enumerate(stargets) for t2 in stargets[i:]]
    if tier == 'quick':
        scases = [c for c in scases if len(c['shape']) <= 1]
    ck.add(run_cases(prog, threads.run_concurrent_case, scases), 'same on MemoryFS with symbolic component names (universe USYMD), every interleaving')
    ck.bounds = {'threads': '2 (3 sampled in thorough)', 'paths': 'depth 1..3 sharing prefixes of every length (U4)', 'initial_states': 'every subset of the prefixes existing as directories',
                 'configs': ['MemoryFS (every interleaving)', 'OverlayFS[Mem,Mem], pre-existing prefixes in the upper layer or only in the lower layer (at most %d preemptive switches)' % (1 if tier == 'quick' else 2)] + (['AltrootFS/Mem (at most 2 preemptive switches)'] if tier != 'quick' else []),
                 'not_encoded': 'the randomised PhysicalFS stress of the quantifier (mkdir(2) atomicity is a kernel property)'}
    ck.assumptions = THREAD_ASSUMPTIONS
    ck.rule = 'a state = (configuration, existing prefixes, target pair); a transition = one complete interleaving; all interleavings enumerated'
    return ck.finish(prog)


@prop('C18')
def c18(tier, seed):
    import itertools
    from . import embedded
    from .script import ScriptRunner, run_native, hx
    from mirsym.engine import explore, Stats
    ck = Check('C18', tier, seed)
    prog = load_program(('embedded-fs',))
    # encoder selftest for the RustEmbed model: fixed file sets, all observers, engine vs native (rust-embed reading a real folder)
    u = embedded.UE()
    mism, nlines, nscripts = 0, 0, 0
    for files in ([], ['a.txt'], ['b/d.txt', 'b/e', 'c/é/h'], embedded.CANDIDATES):
        lines = ['embedfile %s %s' % (hx(f.encode()), hx(bytes([65 + i] * (i % 3)))) for i, f in enumerate(files)] + ['fs R embed']
        for n in u.nodes:
            lines.append('join %s %s %s' % (n.var, 'R' if n.parent == 'R' else n.parent, hx(n.name.encode())))
        for v in u.vars:
            lines += ['exists %s' % v, 'metadata %s' % v, 'read_dir %s' % v, 'read %s 2' % v, 'is_dir %s' % v, 'create_dir %s' % v, 'remove_file %s' % v]
        lines += ['walk_dir R', 'read_to_string atxt']
        box = {}

        def h(ex):
            box['out'] = ScriptRunner(ex).run('\n'.join(lines))
            return []
        _, inc = explore(prog, h, Stats())
        nat = run_native('\n'.join(lines), profile='embed')
        nscripts += 1
        nlines += len(lines)
        if inc or box.get('out') != nat:
            mism += 1
            for a, b in zip(box.get('out') or [], nat):
                if a != b:
                    print('embedded selftest mismatch: engine %s | native %s' % (a, b))
                    break
            if inc:
                print('embedded selftest inconclusive:', inc[0][:200])
    ck.selftest = {'scripts': nscripts, 'lines': nlines, 'mismatches': mism, 'what': 'EmbeddedFS over the RustEmbed model vs rust-embed reading a real folder'}
    sets = []
    for r in range(len(embedded.CANDIDATES) + 1):
        for c in itertools.combinations(embedded.CANDIDATES, r):
            sets.append(list(c))
    cases = [{'files': fs_} for fs_ in sets]
    if tier == 'quick':
        for c in cases:
            c['mutators'] = ['create_dir', 'write', 'remove_file', 'remove_dir', 'create_dir_all', 'append', 'set_time_m']
    ck.add(run_cases(prog, embedded.run_embedded_case, cases), 'every subset of the candidate embedded files: all observers on every path vs the implied tree; all mutators refused and nothing changed')
    pcases = [{'files': fs_, 'len': L} for fs_ in sets for L in range(2, 9)]
    ck.add(run_cases(prog, embedded.run_embedded_probe_case, pcases),
           'the probed path is a solver variable: exists/metadata/read/read_dir on ANY canonical path of 2..8 bytes answer exactly as the implied tree says (no phantom, no missing entry)')
    rng = random.Random(seed)
    two = []
    for _ in range(24 if tier == 'quick' else 400):
        a, b = rng.choice(sets), rng.choice(sets)
        if a != b:
            two.append({'files1': a, 'files2': b, 'order': rng.choice([(1, 2), (2, 1)])})
    ck.add(run_cases(prog, embedded.run_embedded_two_case, two), 'two RustEmbed types (two different folders) in one process: each filesystem shows its own folder')
    ck.bounds = {'embedded_file_sets': 'all %d subsets of %s' % (len(sets), embedded.CANDIDATES), 'file_bytes': '0..2 symbolic',
                 'two_types': '%d seeded pairs of different file sets, both construction orders' % len(two),
                 'probe_paths': 'every canonical path of 2..8 bytes over the bytes of the candidate names plus / . z (solver variable)',
                 'paths': 'every file, implied directory, the root, absent siblings, name prefixes, paths below files'}
    ck.assumptions = COMMON_ASSUMPTIONS[:2] + ['the rust-embed derive and the compiled folder are replaced by a model of RustEmbed::iter/get (validated against rust-embed reading a real folder)',
                                                'timestamps from embedded metadata are not modelled (None)']
    ck.rule = 'a state = one embedded file set with symbolic bytes; transitions = execution paths over all observers and mutators on all universe paths'
    return ck.finish(prog)


@prop('C15')
def c15(tier, seed):
    from . import asynck, twins, overlay
    ck = Check('C15', tier, seed)
    prog = load_program(('async-vfs',))
    ck.selftest = quick_selftest(prog, seed, 30 if tier == 'quick' else 300, kinds=['amem', 'amem', 'aalt', 'aovl', 'aovl3', 'aaltovl', 'aovlalt', 'mem'], profile='async')
    rng = random.Random(seed)
    k = 3 if tier == 'quick' else 4
    cases = [{'clen': c, 'k': k if c < 3 else k - 1, 'first': f1, 'second': f2} for c in range(0, 4 if tier == 'quick' else 5) for f1 in range(4) for f2 in range(4)]
    ck.add(run_cases(prog, asynck.run_async_reader_case, cases), 'AsyncReadableFile::poll_read/poll_seek vs the sync reader contract on symbolic scripts')
    u = UNIVERSES['U3']()
    # (observing a path while a write handle on it is open is left unspecified by C01 and therefore by C15's quantifier; the
    # unchanged tree does differ there: the sync writer publishes on flush, the async writer only when it is dropped. The
    # held-handle differential of harness/twins.py ('create_hold'/'append_hold') is therefore not part of this check.)
    ops = [(op, v) for op in ALL_OPS for v in u.vars]
    tcases = []
    shs = shapes(u)
    for config in ('mem', 'alt'):
        for sh in (shs if tier != 'quick' else shs[::2]):
            tcases.append({'universe': 'U3', 'config': config, 'state': sh, 'ops': ops, 'pendings': [0, 1] if tier == 'quick' else [0, 1, 2]})
    uo = overlay.UO3()
    cfgs = overlay.layer_configs(uo, 2)
    rng.shuffle(cfgs)
    oops = [(op, v) for op in overlay.HIST_OPS + overlay.OBS_OPS for v in uo.vars]
    for cfg in cfgs[:(14 if tier == 'quick' else len(cfgs))]:
        tcases.append({'universe': 'UO3', 'config': 'ovl', 'state': cfg, 'ops': oops if tier != 'quick' else rng.sample(oops, 24), 'pendings': [0, 1]})
    # names that end in the marker suffix next to their stems: no contract is involved in a differential, the two APIs must simply agree
    uw = overlay.UOW()
    wcfgs = overlay.layer_configs(uw, 2)
    rng.shuffle(wcfgs)
    wops = [(op, v) for op in ('remove_file', 'remove_dir_all', 'read_dir', 'write') for v in uw.vars]
    for cfg in wcfgs[:(12 if tier == 'quick' else 150)]:
        tcases.append({'universe': 'UOW', 'config': 'ovl', 'state': cfg, 'ops': wops, 'pendings': [0]})
    tr = [(op_, src, dst) for op_ in ('copy_file', 'move_file', 'copy_dir', 'move_dir') for src in ('a', 'ab', 'a_b') for dst in ('x', 'ab')
          if src != dst]
    for sh in shs[::3]:
        tcases.append({'universe': 'U3', 'config': 'mem', 'state': sh, 'ops': tr, 'pendings': [0, 1]})
    ck.add(run_cases(prog, twins.run_twin_case, tcases), 'sync vs async twins in lock-step (MemoryFS, AltrootFS, OverlayFS; primitives, observers, composites, transfers) on lowered-coroutine MIR')
    wcases = [{'universe': 'U3', 'config': c, 'state': sh} for c in ('mem', 'alt') for sh in shs if len(sh) >= 2]
    for cfg in cfgs[:(6 if tier == 'quick' else 60)]:
        if len(cfg) >= 2:
            wcases.append({'universe': 'UO3', 'config': 'ovl', 'state': cfg})
    ck.add(run_cases(prog, twins.run_walk_case, wcases), 'walk_dir consumed item by item with a removal in between: sync iterator vs async stream')
    ck.bounds = {'reader_kernels': 'content 0..%d symbolic bytes, %d-step scripts, any 64-bit offset' % (3 if tier == 'quick' else 4, k),
                 'twins': 'one call from every well-formed tree over U3 (mem, alt) / sampled layer assignments (ovl); transfers; walk stepping with one removal',
                 'pending_polls_per_external_future': '0, 1 (2 in thorough / walk)', 'outside': 'AsyncPhysicalFS (async-std fs / tokio blocking tasks), runtimes, the drop-time block_on of the async writer beyond its effect'}
    ck.assumptions = COMMON_ASSUMPTIONS[:2] + ['async-vfs MIR is dumped with the stable toolchain (RUSTC_BOOTSTRAP=1); the nightly cannot build rustix 0.37',
                                                'external futures (async-std RwLock, Cursor I/O, stream next, io::copy) are contract models that return Pending a chosen number of times before Ready; lowered coroutines of the crate are executed from MIR by a trivial executor',
                                                'hash iteration order is the same on both sides (insertion order)']
    ck.rule = 'a state = (configuration, tree / layer assignment, pending policy); a transition = one call executed through both APIs (or one stepwise walk); non-trivial = non-empty tree'
    return ck.finish(prog)


@prop('C02')
def c02(tier, seed):
    from . import c02 as mod
    from . import transfer
    ck = Check('C02', tier, seed)
    prog = load_program()
    ck.selftest = quick_selftest(prog, seed, 40 if tier == 'quick' else 400, kinds=['phys', 'altphys', 'ovlphys', 'mem'])
    u = UNIVERSES['U5']()
    ops = [(op, v) for op in ALL_OPS + ['hopen', 'create_hold', 'append_hold', 'create_seek_hold', 'rewrite_then_remove', 'recreate_dir_cycle'] for v in u.vars]
    cases = [{'universe': 'U5', 'shape': sh, 'ops': ops} for sh in shapes(u)]
    ck.add(run_cases(prog, mod.run_diff_case, cases), 'every primitive/observer/composite on every path from every well-formed tree, MemoryFS vs PhysicalFS@OSM in lock-step')
    ut = UNIVERSES['UT']()
    tshapes = [sh for sh in shapes(ut)]
    if tier == 'quick':
        tshapes = tshapes[::5]
    tops = []
    for op_ in ('copy_file', 'move_file', 'copy_dir', 'move_dir'):
        for src in ('f', 'a', 'a_b', 'a_b_c', 'x'):
            for dst in ('x', 'x_b', 'a_b'):
                if op_ in ('copy_dir', 'move_dir') and (dst == src or dst.startswith(src + '_')):
                    continue       # destination inside the source: documented non-termination
                if src != dst:
                    tops.append((op_, src, dst))
    cases2 = [{'universe': 'UT', 'shape': sh, 'ops': tops} for sh in tshapes]
    ck.add(run_cases(prog, mod.run_diff_case, cases2), 'copy/move of files and directories within one instance (PhysicalFS fast paths fs::copy/rename vs the generic stream copy)')
    ck.bounds = {'universe': 'U5 (all 63 trees) and UT (transfer positions)', 'file_bytes': '0..2 symbolic, shared by both backends', 'steps': 1,
                 'relative_to': 'the OS contract model of std::fs (mirsym/osm.py), validated against the real kernel by %d selftest scripts in this run' % ck.selftest['scripts'],
                 'excluded': 'timestamps, message texts, other I/O error kinds, seek on append handles, symlinks/permissions'}
    ck.assumptions = COMMON_ASSUMPTIONS + ['PhysicalFS runs over the OS contract model (Linux outcomes: ENOENT, EEXIST, ENOTDIR, EISDIR, ENOTEMPTY, EINVAL); the kernel itself is not encoded']
    ck.rule = 'a state = one well-formed tree built on both backends; a transition = one call executed on both; non-trivial = non-empty tree or root target'
    return ck.finish(prog)
