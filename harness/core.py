"""Universes, tree shapes, state construction through the public API, snapshots through the real
observers, and the abstract tree contract (the oracle; written from the rustdoc of VfsPath /
FileSystem and the property statements, independent of any backend)."""
import itertools
import z3

from mirsym.values import *   # noqa
from .api import Outcome
from .script import ScriptRunner, hx

# ------------------------------------------------------------------------------------------ universes


class Node:
    __slots__ = ('var', 'parent', 'name', 'probe', 'depth', 'symlen', 'kinds', 'namekey')

    def __init__(self, var, parent, name, probe=False, symlen=None, kinds=('d', 'f'), namekey=None):
        self.namekey = namekey or var
        self.var, self.parent, self.name, self.probe = var, parent, name, probe
        self.depth = 0
        self.symlen = symlen          # not None: the name is a symbolic byte string of this length
        self.kinds = kinds


class Universe:
    def __init__(self, nodes, tag):
        self.nodes = nodes
        self.tag = tag
        self.by_var = {n.var: n for n in nodes}
        for n in nodes:
            n.depth = 1 if n.parent == 'R' else self.by_var[n.parent].depth + 1
        self.vars = ['R'] + [n.var for n in nodes]

    def children(self, v):
        return [n.var for n in self.nodes if n.parent == v]

    def parent(self, v):
        return 'R' if v == 'R' else self.by_var[v].parent

    def path_str(self, v):
        if v == 'R':
            return ''
        n = self.by_var[v]
        return self.path_str(n.parent) + '/' + n.name

    def descendants(self, v):
        out = []
        for c in self.children(v):
            out.append(c)
            out += self.descendants(c)
        return out

    def ancestors(self, v):
        out = []
        while v != 'R':
            v = self.parent(v)
            out.append(v)
        return out


def U5():
    return Universe([Node('a', 'R', 'a'), Node('ab', 'R', 'ab'), Node('adb', 'R', 'a.b'), Node('a_b', 'a', 'b'),
                     Node('a_b_c', 'a_b', 'c'), Node('x', 'R', 'x', True), Node('x_y', 'x', 'y', True)], 'U5')


def U4():
    """reduced universe for multi-layer / multi-step explorations"""
    return Universe([Node('a', 'R', 'a'), Node('ab', 'R', 'ab'), Node('a_b', 'a', 'b'), Node('a_b_c', 'a_b', 'c'),
                     Node('x', 'R', 'x', True)], 'U4')


def U4S():
    """siblings below a shared ancestor (concurrent creators of different children)"""
    return Universe([Node('a', 'R', 'a'), Node('a_b', 'a', 'b'), Node('a_c', 'a', 'c'), Node('a_b_d', 'a_b', 'd'), Node('x', 'R', 'x', True)], 'U4S')


def U3():
    return Universe([Node('a', 'R', 'a'), Node('ab', 'R', 'ab'), Node('a_b', 'a', 'b'), Node('x', 'R', 'x', True)], 'U3')


def USYM():
    """symbolic-name mode: the solver, not a list, decides every prefix/suffix relation between names"""
    return Universe([Node('n1', 'R', None, symlen=1), Node('n2', 'R', None, symlen=3), Node('n1_n3', 'n1', None, symlen=2),
                     Node('x', 'R', 'x', True)], 'USYM')


def USYMD():
    """symbolic-name chain of depth 3 plus a root sibling (create_dir_all targets)"""
    return Universe([Node('n1', 'R', None, symlen=1), Node('n4', 'R', None, symlen=2), Node('n1_n2', 'n1', None, symlen=2),
                     Node('n1_n2_n3', 'n1_n2', None, symlen=1), Node('x', 'R', 'x', True)], 'USYMD')


def U8():
    return Universe([Node('a', 'R', 'a'), Node('ab', 'R', 'ab'), Node('adb', 'R', 'a.b'), Node('a_b', 'a', 'b'),
                     Node('a_b_c', 'a_b', 'c'), Node('ab_c', 'ab', 'c'), Node('a_e', 'a', 'é'),
                     Node('a_b_c_d', 'a_b_c', 'd'), Node('x', 'R', 'x', True), Node('x_y', 'x', 'y', True)], 'U8')


UNIVERSES = {'U5': U5, 'U4': U4, 'U3': U3, 'U8': U8, 'USYM': USYM, 'USYMD': USYMD, 'U4S': U4S}

# a shape is a tuple of (var, kind) with kind in 'd' / 'f' for existing nodes, parents first


def shapes(u, max_files=None):
    """all well-formed trees over the universe (probes never exist)"""
    real = [n for n in u.nodes if not n.probe]
    out = []

    def rec(i, cur):
        if i == len(real):
            out.append(tuple(sorted(cur.items(), key=lambda kv: u.vars.index(kv[0]))))
            return
        n = real[i]
        rec(i + 1, cur)
        if n.parent == 'R' or cur.get(n.parent) == 'd':
            for k in n.kinds:
                cur[n.var] = k
                rec(i + 1, cur)
                del cur[n.var]
    rec(0, {})
    if max_files is not None:
        out = [s for s in out if sum(1 for _, k in s if k == 'f') <= max_files]
    return out


def shape_str(sh):
    return ','.join('%s:%s' % (v, k) for v, k in sh) or '(empty)'

# ------------------------------------------------------------------------------------------ abstract tree


class Tree:
    """abstract tree: var -> 'd' | ('f', S bytes); absent vars are not in the dict. 'R' is always 'd'."""

    def __init__(self, u, nodes=None):
        self.u = u
        self.n = dict(nodes or {})
        self.n['R'] = 'd'

    def copy(self):
        return Tree(self.u, self.n)

    def kind(self, v):
        x = self.n.get(v)
        if x is None:
            return 'absent'
        return 'dir' if x == 'd' else 'file'

    def content(self, v):
        return self.n[v][1]

    def children(self, v):
        return [c for c in self.u.children(v) if c in self.n]

    def cls(self, v):
        """role class of a node for finding keys"""
        if v == 'R':
            return 'root'
        k = self.kind(v)
        if k == 'dir':
            return 'emptydir' if not self.children(v) else 'nonemptydir'
        return k

    def remove_subtree(self, v):
        for d in self.u.descendants(v):
            self.n.pop(d, None)
        self.n.pop(v, None)

    def wellformed(self):
        for v in self.n:
            if v != 'R' and self.n.get(self.u.parent(v)) != 'd':
                return False
        return True


# ------------------------------------------------------------------------------------------ contract (oracle)

class Expect:
    """what the contract prescribes for one call"""
    __slots__ = ('status', 'errclass', 'tree', 'ret', 'why')

    def __init__(self, status, errclass=None, tree=None, ret=None, why=''):
        self.status, self.errclass, self.tree, self.ret, self.why = status, errclass, tree, ret, why


def not_found_or_any(t, v):
    """error class for a missing target: not-found when the parent is an existing directory"""
    if v != 'R' and t.kind(t.u.parent(v)) == 'dir':
        return 'FileNotFound'
    return None


def contract(t, op, v, data=None, dst=None, dst_tree=None):
    """t: Tree (pre-state). Returns Expect.  status: 'ok' | 'err' | 'unspecified'."""
    u = t.u
    k = t.kind(v)
    par = None if v == 'R' else u.parent(v)
    par_ok = v != 'R' and t.kind(par) == 'dir'
    if op == 'create_dir':
        if v == 'R':
            return Expect('err', None, why='root already exists')
        if not par_ok:
            return Expect('err', None, why='parent is not an existing directory')
        if k == 'file':
            return Expect('err', 'FileExists', why='occupied by a file')
        if k == 'dir':
            return Expect('err', 'DirectoryExists', why='occupied by a directory')
        nt = t.copy(); nt.n[v] = 'd'
        return Expect('ok', tree=nt)
    if op == 'write':          # create_file + write(data) + drop
        if v == 'R' or k == 'dir':
            return Expect('err', None, why='target is a directory')
        if not par_ok:
            return Expect('err', None, why='parent is not an existing directory')
        nt = t.copy(); nt.n[v] = ('f', S(data))
        return Expect('ok', tree=nt)
    if op == 'append':
        if k == 'dir':
            return Expect('err', None, why='target is a directory')
        if k == 'absent':
            return Expect('err', not_found_or_any(t, v), why='target does not exist')
        nt = t.copy(); nt.n[v] = ('f', S(t.content(v) + tuple(data)))
        return Expect('ok', tree=nt)
    if op == 'remove_file':
        if k == 'dir':
            return Expect('err', None, why='target is a directory')
        if k == 'absent':
            return Expect('err', not_found_or_any(t, v), why='target does not exist')
        nt = t.copy(); del nt.n[v]
        return Expect('ok', tree=nt)
    if op == 'remove_dir':
        if k == 'file':
            return Expect('err', None, why='target is a file')
        if k == 'absent':
            return Expect('err', not_found_or_any(t, v), why='target does not exist')
        if t.children(v):
            return Expect('err', None, why='directory is not empty')
        if v == 'R':
            return Expect('unspecified', why='removal of the root itself')
        nt = t.copy(); del nt.n[v]
        return Expect('ok', tree=nt)
    if op in ('read', 'open'):
        if k == 'dir':
            return Expect('err', None, why='target is a directory')
        if k == 'absent':
            return Expect('err', not_found_or_any(t, v), why='target does not exist')
        return Expect('ok', tree=t, ret=t.content(v))
    if op == 'metadata':
        if k == 'absent':
            return Expect('err', not_found_or_any(t, v), why='target does not exist')
        return Expect('ok', tree=t, ret=('dir', 0) if k == 'dir' else ('file', len(t.content(v))))
    if op == 'exists':
        return Expect('ok', tree=t, ret=(k != 'absent'))
    if op == 'is_file':
        return Expect('ok', tree=t, ret=(k == 'file'))
    if op == 'is_dir':
        return Expect('ok', tree=t, ret=(k == 'dir'))
    if op == 'read_dir':
        if k == 'file':
            return Expect('err', None, why='target is a file')
        if k == 'absent':
            return Expect('err', not_found_or_any(t, v), why='target does not exist')
        return Expect('ok', tree=t, ret=t.children(v))
    if op == 'read_to_string':
        if k == 'dir':
            return Expect('err', None, why='target is a directory')
        if k == 'absent':
            return Expect('err', not_found_or_any(t, v), why='target does not exist')
        return Expect('ok_or_utf8', tree=t, ret=t.content(v))
    if op.startswith('set_time'):
        if k == 'absent':
            return Expect('err', not_found_or_any(t, v), why='target does not exist')
        return Expect('either', tree=t, why='setters may be unsupported; the tree never changes')
    if op == 'create_dir_all':
        chain = list(reversed(u.ancestors(v)))[1:] + [v] if v != 'R' else []
        for c in chain:
            if t.kind(c) == 'file':
                return Expect('err', None, why='a file is in the way at ' + c)
        nt = t.copy()
        for c in chain:
            nt.n[c] = 'd'
        return Expect('ok', tree=nt)
    if op == 'remove_dir_all':
        if k == 'absent':
            return Expect('ok', tree=t)
        if k == 'file':
            return Expect('unspecified', why='remove_dir_all on a file')
        if v == 'R':
            return Expect('unspecified', why='removal of the root itself')
        nt = t.copy(); nt.remove_subtree(v)
        return Expect('ok', tree=nt)
    raise ValueError('contract: unknown op ' + op)


# ------------------------------------------------------------------------------------------ state construction

NAME_ALPHA = [0x61, 0x62, 0x2e, 0x5f, 0xc3, 0xa9]


def valid_name(s):
    """a valid path component over the alphabet {a, b, '.', '_', U+00E9}: UTF-8 well-formed, not '.' or '..'"""
    n = len(s)
    cs = []
    for i, b in enumerate(s):
        cs.append(z3.Or([b == z3.BitVecVal(c, 8) for c in NAME_ALPHA]))
        cs.append(z3.Implies(b == 0xc3, s[i + 1] == 0xa9) if i + 1 < n else b != 0xc3)
        cs.append(z3.Implies(b == 0xa9, s[i - 1] == 0xc3) if i > 0 else b != 0xa9)
    if n == 1:
        cs.append(s[0] != 0x2e)
    if n == 2:
        cs.append(z3.Not(z3.And(s[0] == 0x2e, s[1] == 0x2e)))
    return zand(cs)


def sym_content(ex, n, tag):
    return S([ex.fresh(tag, 8) for _ in range(n)])


class Setup:
    """builds filesystems and a universe of path variables inside a ScriptRunner (public API only)"""

    def __init__(self, sr, u):
        self.sr, self.u = sr, u

    def define_paths(self, root='R', prefix=''):
        """script vars for every universe node: <prefix><var> = root.join(name chain)"""
        sr = self.sr
        ex = sr.ex
        for n in self.u.nodes:
            base = root if n.parent == 'R' else prefix + n.parent
            if n.symlen is not None:
                key = 'nm_' + n.namekey
                if key not in sr.syms:
                    sr.syms[key] = S([ex.fresh(key, 8) for _ in range(n.symlen)])
                    ex.assume(valid_name(sr.syms[key]))
                    for o in self.u.nodes:
                        ok_ = 'nm_' + o.namekey
                        if o is not n and o.parent == n.parent and o.symlen == n.symlen and ok_ in sr.syms and ok_ != key:
                            ex.assume(znot(seq_eq(sr.syms[key], sr.syms[ok_])))
                        if o is not n and o.parent == n.parent and o.symlen is None and len(o.name.encode()) == n.symlen:
                            ex.assume(znot(seq_eq(sr.syms[key], S(o.name.encode()))))
                r = sr.do('join %s%s %s $%s' % (prefix, n.var, base, key))
            else:
                r = sr.do('join %s%s %s %s' % (prefix, n.var, base, hx(n.name.encode())))
            if not r.startswith('ok'):
                raise Unmodelled('universe join failed: ' + r)
        if prefix:
            sr.do('join %sR %s -' % (prefix, root))

    def build(self, shape, prefix='', lens=None, tag='c'):
        """create the shape (parents first) through create_dir / create_file+write; returns Tree"""
        sr, ex = self.sr, self.sr.ex
        t = Tree(self.u)
        fi = 0
        for v, k in shape:
            if k == 'd':
                r = sr.do('create_dir %s%s' % (prefix, v))
                t.n[v] = 'd'
            else:
                ln = lens[fi % len(lens)] if lens else 1
                fi += 1
                name = '%s%s_%s' % (tag, prefix, v)
                sr.syms[name] = sym_content(ex, ln, name)
                r = sr.do('write %s%s $%s' % (prefix, v, name))
                t.n[v] = ('f', sr.syms[name])
            if r != 'ok':
                raise Unmodelled('state construction failed at %s: %s' % (v, r))
        return t


# ------------------------------------------------------------------------------------------ snapshots

class Obs:
    __slots__ = ('exists', 'meta', 'listing', 'content', 'raw')

    def __init__(self):
        self.exists = self.meta = self.listing = self.content = None
        self.raw = {}


def snapshot(sr, u, prefix='', with_content=True, with_listing=True, chunk=3):
    """observe every universe path through the real observers; returns {var: Obs}"""
    snap = {}
    for v in u.vars:
        o = Obs()
        pv = prefix + v if (prefix or v != 'R') else 'R'
        if prefix and v == 'R':
            pv = prefix + 'R'
        r = sr.do('exists %s' % pv)
        o.raw['exists'] = sr.last
        o.exists = sr.last.value if sr.last.ok else ('err', sr.last)
        r = sr.do('metadata %s' % pv)
        o.raw['metadata'] = sr.last
        o.meta = sr.last.value[:2] if sr.last.ok else ('err', sr.last)
        if with_listing:
            r = sr.do('read_dir %s' % pv)
            o.raw['read_dir'] = sr.last
            o.listing = list(sr.last.value) if sr.last.ok else ('err', sr.last)
        if with_content:
            r = sr.do('read %s %d' % (pv, chunk))
            o.raw['read'] = sr.last
            o.content = sr.last.value if sr.last.ok else ('err', sr.last)
        snap[v] = o
    return snap


def observed_kind(o):
    if o.exists is True and o.meta[0] != 'err':
        return o.meta[0]
    if o.exists is False:
        return 'absent'
    return 'error'


def is_err(x):
    return type(x) is tuple and len(x) == 2 and x[0] == 'err'


def match_names(ex, names, cands):
    """match listed names (S) against candidate (var, S) pairs; returns (matched vars, foreign names)"""
    matched, foreign = [], []
    for nm in names:
        for var, s in cands:
            if ex.branch(seq_eq(nm, s)):
                matched.append(var)
                break
        else:
            foreign.append(nm)
    return matched, foreign


def compare_tree(sr, u, snap, t, prefix=''):
    """differences between a snapshot and an abstract tree: list of (var, what, detail, cond_or_None)
    cond (a z3 term) is a byte-level obligation still to be discharged by the solver"""
    ex = sr.ex
    diffs, obligations = [], []
    for v in u.vars:
        o = snap[v]
        want = t.kind(v)
        got = observed_kind(o)
        if got != want:
            diffs.append((v, 'kind', 'expected %s, observed %s (exists=%s metadata=%s)' % (
                want, got, fmt_obs(o.exists), fmt_obs(o.meta))))
            continue
        if want == 'file':
            exp = t.content(v)
            if o.meta[1] != len(exp):
                diffs.append((v, 'len', 'metadata len %s, expected %d' % (o.meta[1], len(exp))))
            if o.content is not None:
                if is_err(o.content):
                    diffs.append((v, 'read', 'file cannot be read: %s' % fmt_obs(o.content)))
                elif len(o.content) != len(exp):
                    diffs.append((v, 'bytes', 'read %d bytes, expected %d' % (len(o.content), len(exp))))
                else:
                    obligations.append((v, 'bytes', seq_eq(o.content, exp)))
        elif want == 'dir':
            if o.meta[1] != 0:
                diffs.append((v, 'len', 'directory reports length %s' % (o.meta[1],)))
            if o.listing is not None:
                if is_err(o.listing):
                    diffs.append((v, 'listing', 'directory cannot be listed: %s' % fmt_obs(o.listing)))
                else:
                    base = sr.w.as_str(sr.paths[prefix + v if (prefix or v != 'R') else 'R'])
                    cands = [(c, sr.w.as_str(sr.paths[prefix + c])) for c in u.children(v)]
                    matched, foreign = match_names(ex, o.listing, cands)
                    want_ch = sorted(t.children(v))
                    if sorted(matched) != want_ch:
                        diffs.append((v, 'listing', 'lists %s, expected %s' % (sorted(matched), want_ch)))
                    if foreign:
                        diffs.append((v, 'foreign', 'lists foreign entries %r (not paths of the universe)' % (foreign,)))
    return diffs, obligations


def fmt_obs(x):
    if is_err(x):
        o = x[1]
        return o.brief() if isinstance(o, Outcome) else repr(o)
    return repr(x)


def wellformed_obs(u, snap):
    """C03 on a snapshot: root is a directory; exists(p) => parent(p) is a directory"""
    bad = []
    if observed_kind(snap['R']) != 'dir':
        bad.append(('R', 'root is not an existing directory (%s)' % observed_kind(snap['R'])))
    for v in u.vars:
        if v == 'R':
            continue
        if snap[v].exists is True and observed_kind(snap[u.parent(v)]) != 'dir':
            bad.append((v, 'exists but its parent %s is %s' % (u.parent(v), observed_kind(snap[u.parent(v)]))))
    return bad
