"""C06: VfsPath::join and friends on symbolic strings.

base (assumed canonical; every Ok result is asserted canonical, which closes the induction) and
argument are byte strings of every length up to the bound, each byte a solver variable over the
alphabet {'/', '.', 'a', 'b', C3 A9 (é)}.  The real join_internal / parent_internal /
filename_internal / extension_internal MIR is executed; the result is compared by the solver
with an independent reference resolver executed on the same symbolic strings."""
import z3

from mirsym.engine import explore
from mirsym.values import *   # noqa
from .api import World, Outcome
from .framework import CaseResult, Finding
from .script import hx

SL, DOT = 0x2f, 0x2e
ALPHA = [0x2f, 0x2e, 0x61, 0x62, 0x5c, 0x20, 0xc3, 0xa9]      # '/', '.', 'a', 'b', backslash, space, U+00E9


def alphabet(ex, s):
    cs = []
    n = len(s)
    for i, b in enumerate(s):
        cs.append(z3.Or([b == z3.BitVecVal(c, 8) for c in ALPHA]))
        # UTF-8 well-formedness of the only multi-byte character in the alphabet
        if i + 1 < n:
            cs.append(z3.Implies(b == 0xc3, s[i + 1] == 0xa9))
        else:
            cs.append(b != 0xc3)
        if i > 0:
            cs.append(z3.Implies(b == 0xa9, s[i - 1] == 0xc3))
        else:
            cs.append(b != 0xa9)
    return zand(cs)


def canonical(s):
    """canonical form as a solver term: '' or '/'-separated non-empty components, none '.' or '..'"""
    n = len(s)
    if n == 0:
        return True
    cs = [beq(s[0], SL), znot(beq(s[n - 1], SL))]
    for i in range(n - 1):
        cs.append(znot(zand([beq(s[i], SL), beq(s[i + 1], SL)])))
    for i in range(n):
        # component starting after a '/' at i
        if i + 1 < n:
            end1 = True if i + 2 == n else beq(s[i + 2], SL)
            cs.append(znot(zand([beq(s[i], SL), beq(s[i + 1], DOT), end1])))
        if i + 2 < n:
            end2 = True if i + 3 == n else beq(s[i + 3], SL)
            cs.append(znot(zand([beq(s[i], SL), beq(s[i + 1], DOT), beq(s[i + 2], DOT), end2])))
    return zand(cs)


def ref_split(ex, s):
    parts, cur = [], []
    for b in s:
        if ex.branch(beq(b, SL)):
            parts.append(tuple(cur)); cur = []
        else:
            cur.append(b)
    parts.append(tuple(cur))
    return parts


def ref_is(ex, comp, lit_):
    return len(comp) == len(lit_) and ex.branch(seq_eq(comp, lit_))


def ref_join(ex, base, arg):
    """independent reference: lexical resolution of arg against base. None = invalid argument"""
    if len(arg) == 0:
        return tuple(base)
    if len(arg) > 1 and ex.branch(beq(arg[-1], SL)):
        return None
    comps = [] if ex.branch(beq(arg[0], SL)) else [c for c in ref_split(ex, base) if len(c)]
    for c in ref_split(ex, arg):
        if len(c) == 0 or ref_is(ex, c, (DOT,)):
            continue
        if ref_is(ex, c, (DOT, DOT)):
            if comps:
                comps.pop()
        else:
            comps.append(c)
    out = ()
    for c in comps:
        out += (SL,) + tuple(c)
    return out


def ref_filename(ex, p):
    for i in range(len(p) - 1, -1, -1):
        if ex.branch(beq(p[i], SL)):
            return tuple(p[i + 1:])
    return tuple(p)


def ref_parent(ex, p):
    for i in range(len(p) - 1, -1, -1):
        if ex.branch(beq(p[i], SL)):
            return tuple(p[:i])
    return ()


def ref_extension(ex, fn):
    for i in range(len(fn) - 1, -1, -1):
        if ex.branch(beq(fn[i], DOT)):
            return None if i == 0 else tuple(fn[i + 1:])
    return None


def model_bytes(model, s):
    return bytes((model.eval(b, model_completion=True).as_long() if not isinstance(b, int) else b) for b in s)


def finding(ex, key, detail, base, arg, model=None, arg_first=None):
    """replay script: root.join(base) then .join(arg) and the observers"""
    if model is None:
        model = ex.any_model()
    b, a = model_bytes(model, base), model_bytes(model, arg)
    lines = ['fs R mem', 'join p R %s' % hx(b), 'join q p %s' % hx(a), 'filename q', 'extension q', 'parent r q', 'is_root q',
             'fs R2 mem', 'join q2 R2 %s' % hx(b), 'eq p q2', 'eq p p', 'root rr1 p', 'root rr2 q2', 'eq rr1 rr2', 'parent pp1 p', 'eq pp1 rr2']
    f = Finding('C06', key, detail + ' [base=%r arg=%r]' % (b, a), lines, None)
    f.inputs = (b, a)
    return f


def run_case(prog, params):
    la, lb = params['la'], params['lb']
    res = CaseResult()
    res.states = 1

    def h(ex):
        out = []
        w = World(ex)
        root = w.new_mem()
        root2 = w.new_mem()
        base = S([ex.fresh('base', 8) for _ in range(lb)])
        arg = S([ex.fresh('arg', 8) for _ in range(la)])
        if lb:
            ex.assume(alphabet(ex, base))
            ex.assume(canonical(base))
        if la:
            ex.assume(alphabet(ex, arg))
        first = params.get('first')
        if first is not None and la:
            ex.assume(arg[0] == z3.BitVecVal(first, 8))
        p = Adt('VfsPath', None, [base, root.fields[1]])
        o = w.join(p, arg)
        if o.tag == 'panic':
            out.append(finding(ex, 'join|panic:%s' % o.where, 'join panics: %s' % o.msg, base, arg))
            return out
        exp = ref_join(ex, base, arg)
        if exp is None:
            if o.ok:
                out.append(finding(ex, 'join|trailing_slash_accepted', 'join accepts an argument with a trailing slash', base, arg))
            else:
                if o.kind != 'InvalidPath':
                    out.append(finding(ex, 'join|invalid_kind:%s' % o.kind, 'trailing-slash join reported as %s, not InvalidPath' % o.kind, base, arg))
            return out
        if not o.ok:
            out.append(finding(ex, 'join|unexpected_err:%s' % o.kind, 'join rejects a valid argument with %s' % o.kind, base, arg))
            return out
        q = o.value
        got = w.as_str(q)
        if len(got) != len(exp):
            out.append(finding(ex, 'join|wrong_result', 'join result has length %d, lexical resolution has %d' % (len(got), len(exp)), base, arg))
            return out
        m = ex.check(seq_eq(got, exp), 'join = reference')
        if m is not None:
            out.append(finding(ex, 'join|wrong_result', 'join result differs from the lexical resolution', base, arg, m))
            return out
        m = ex.check(canonical(got), 'result canonical')
        if m is not None:
            out.append(finding(ex, 'join|not_canonical', 'join result is not canonical', base, arg, m))
        # same fs instance is kept
        if q.fields[1] is not p.fields[1]:
            out.append(finding(ex, 'join|other_fs', 'join result belongs to another filesystem instance', base, arg))
        # filename / parent / extension / is_root / root on the result
        for name, ref in (('filename', ref_filename), ('parent', ref_parent)):
            r = w.call(name, q)
            if not r.ok:
                out.append(finding(ex, '%s|%s' % (name, r.tag), '%s on a join result: %s' % (name, r), base, arg))
                continue
            gv = r.value if name == 'filename' else w.as_str(r.value)
            ev = ref(ex, got)
            if len(gv) != len(ev) or ex.check(seq_eq(gv, ev), name) is not None:
                out.append(finding(ex, '%s|wrong' % name, '%s of the join result is wrong' % name, base, arg))
        r = w.call('extension', q)
        if not r.ok:
            out.append(finding(ex, 'extension|%s' % r.tag, 'extension on a join result: %s' % (r,), base, arg))
        else:
            ev = ref_extension(ex, ref_filename(ex, got))
            gv = None if r.value.variant == 'None' else r.value.fields[0]
            if (gv is None) != (ev is None) or (gv is not None and (len(gv) != len(ev) or ex.check(seq_eq(gv, ev), 'extension') is not None)):
                out.append(finding(ex, 'extension|wrong', 'extension of the join result is wrong', base, arg))
        r = w.call('is_root', q)
        if not r.ok or ex.branch(r.value) != (len(got) == 0):
            out.append(finding(ex, 'is_root|wrong', 'is_root disagrees with the canonical string', base, arg))
        r = w.call('root', q)
        if not r.ok or len(w.as_str(r.value)) != 0 or r.value.fields[1] is not p.fields[1]:
            out.append(finding(ex, 'root|wrong', 'root() is not the empty path of the same filesystem', base, arg))
        # a plain name: parent(join(p, name)) == p and filename == name
        plain = la > 0 and not ex.branch(zor([beq(b, SL) for b in arg])) and not ref_is(ex, arg, (DOT,)) and not ref_is(ex, arg, (DOT, DOT))
        if plain:
            r = w.call('parent', q)
            if not r.ok or len(w.as_str(r.value)) != len(base) or ex.check(seq_eq(w.as_str(r.value), base), 'parent(join)') is not None:
                out.append(finding(ex, 'parent_of_join|wrong', 'parent(join(p, name)) != p', base, arg))
            r = w.call('filename', q)
            if not r.ok or len(r.value) != len(arg) or ex.check(seq_eq(r.value, arg), 'filename(join)') is not None:
                out.append(finding(ex, 'filename_of_join|wrong', 'filename(join(p, name)) != name', base, arg))
        # equality: same instance and same string
        other_same = Adt('VfsPath', None, [S(got), p.fields[1]])
        other_fs = Adt('VfsPath', None, [S(got), root2.fields[1]])
        e1 = w.guard(lambda: w.F('<path::VfsPath as PartialEq>::eq', [ValRef(q), ValRef(other_same)]))
        e2 = w.guard(lambda: w.F('<path::VfsPath as PartialEq>::eq', [ValRef(q), ValRef(other_fs)]))
        e3 = w.guard(lambda: w.F('<path::VfsPath as PartialEq>::eq', [ValRef(q), ValRef(p)]))
        if not e1.ok or ex.check(e1.value if not isinstance(e1.value, bool) else e1.value, 'eq same') is not None:
            out.append(finding(ex, 'eq|same_instance_same_string_unequal', 'two paths of one instance with equal strings compare unequal', base, arg))
        if not e2.ok or ex.check(znot(e2.value), 'eq other fs') is not None:
            out.append(finding(ex, 'eq|other_instance_equal', 'paths of two filesystem instances compare equal', base, arg))
        # products of root()/parent() of two different instances never compare equal either (whatever they share inside)
        q2 = Adt('VfsPath', None, [S(got), root2.fields[1]])
        r1, r2 = w.call('root', q), w.call('root', q2)
        if r1.ok and r2.ok:
            e4 = w.guard(lambda: w.F('<path::VfsPath as PartialEq>::eq', [ValRef(r1.value), ValRef(r2.value)]))
            if not e4.ok or ex.check(znot(e4.value), 'eq roots of two fs') is not None:
                out.append(finding(ex, 'eq|roots_of_two_instances_equal', 'root() of paths of two filesystem instances compare equal', base, arg))
        pp1, pp2 = w.call('parent', q), w.call('parent', q2)
        if pp1.ok and pp2.ok:
            e5 = w.guard(lambda: w.F('<path::VfsPath as PartialEq>::eq', [ValRef(pp1.value), ValRef(pp2.value)]))
            if not e5.ok or ex.check(znot(e5.value), 'eq parents of two fs') is not None:
                out.append(finding(ex, 'eq|parents_of_two_instances_equal', 'parent() of paths of two filesystem instances compare equal', base, arg))
            if r2.ok:
                e6 = w.guard(lambda: w.F('<path::VfsPath as PartialEq>::eq', [ValRef(pp1.value), ValRef(r2.value)]))
                if not e6.ok or ex.check(znot(e6.value), 'eq parent vs other root') is not None:
                    out.append(finding(ex, 'eq|parent_equals_root_of_other_instance', 'parent() of a path equals root() of another filesystem instance', base, arg))
        if e3.ok:
            same = seq_eq(got, base) if len(got) == len(base) else False
            c = (e3.value == same) if (is_sym(e3.value) or is_sym(same)) else (e3.value == same)
            if ex.check(c, 'eq iff same string') is not None:
                out.append(finding(ex, 'eq|not_iff_string', '== disagrees with string equality on one instance', base, arg))
        if not res.samples:
            mdl = ex.any_model()
            res.samples.append({'base_len': lb, 'arg_len': la, 'example_base': repr(model_bytes(mdl, base)), 'example_arg': repr(model_bytes(mdl, arg)),
                                'example_result': repr(model_bytes(mdl, got)), 'path_condition_size': len(ex.pc)})
        return out
    fs, inc = explore(prog, h, res.stats)
    if params.get('panic_only'):
        # used by C13: of everything the path kernels can do wrong, only panics are that property's subject
        fs = [f for f in fs if 'panic' in f.key]
        for f in fs:
            f.prop = params.get('prop', 'C13')
    # engine-predicted outputs for replay: execute the concrete script in the engine
    for f in fs:
        concretize_expected(prog, f)
    res.findings += fs
    res.inconclusive += inc
    res.evals = res.stats.paths
    return res


def concretize_expected(prog, f):
    from .script import ScriptRunner
    from mirsym.engine import Stats
    box = {}

    def h(ex):
        sr = ScriptRunner(ex)
        box['out'] = sr.run('\n'.join(f.lines))
        return []
    explore(prog, h, Stats())
    f.outs = box.get('out')
