"""entry point: bin/check <id> [--tier quick|thorough]"""
import os
import sys
import time


def main():
    args = sys.argv[1:]
    if not args:
        print('usage: bin/check <property id> [--tier quick|thorough]')
        return 2
    prop = args[0]
    tier = os.environ.get('VERIF_TIER', 'quick')
    if '--tier' in args:
        tier = args[args.index('--tier') + 1]
    seed = int(os.environ.get('VERIF_SEED', '1'))
    from . import props
    fn = props.REGISTRY.get(prop)
    if fn is None:
        print('no check is built for %s (see MANIFEST.json not_applicable)' % prop)
        return 2
    try:
        return fn(tier, seed)
    except Exception as e:
        import traceback
        traceback.print_exc()
        print('INCONCLUSIVE property=%s internal error: %s' % (prop, e))
        return 2


if __name__ == '__main__':
    sys.exit(main())
