import sys
from .script import run_native


def main():
    p = sys.argv[1]
    text = open(p).read()
    head = [l for l in text.split('\n') if l.startswith('#!')]
    profile = 'release' if any('profile=release' in h for h in head) else 'dev'
    body = text.split('# --- outputs predicted')[0]
    want = [l[2:] for l in text.split('\n') if l.startswith('# ') and l[2:3].isdigit()]
    lines = [l for l in body.split('\n') if l.strip() and not l.startswith('#')]
    out = run_native('\n'.join(lines), profile=profile)
    for h in head:
        print(h)
    same = True
    for l, o, w in zip(lines, out, want):
        flag = '' if o == w else '   <-- differs from recorded: ' + w
        same &= (o == w)
        print('%-40s => %s%s' % (l, o.split(' ', 1)[1], flag))
    print('REPRODUCED' if same else 'NOT REPRODUCED')
    return 1 if same else 0


if __name__ == '__main__':
    sys.exit(main())
