"""AsyncVfsPath driver: the async twin of harness/api.py. Every call creates the lowered coroutine
of the async fn from the MIR and runs it to completion on the engine's executor (asyncrt.block_on)."""
from mirsym.values import *   # noqa
from mirsym import models, asyncrt
from .api import World, Outcome


class AsyncWorld(World):
    PATH = 'async_vfs::path::AsyncVfsPath::'

    def acall(self, name, args):
        """run an async fn to completion"""
        fut = self.F(name, args)
        return asyncrt.block_on(self.ex, fut)

    def new_mem(self):
        fs = self.F('AsyncMemoryFS::new', [])
        return self.F(self.PATH + 'new', [fs])

    def new_altroot(self, rootpath):
        fs = self.F('AsyncAltrootFS::new', [rootpath])
        return self.F(self.PATH + 'new', [fs])

    def new_overlay(self, layers):
        fs = self.F('AsyncOverlayFS::new', [ValRef(list(layers))])
        return self.F(self.PATH + 'new', [fs])

    def join(self, base, s):
        if isinstance(s, (str, bytes)):
            s = lit(s)
        return self.guard(lambda: self.F(self.PATH + 'join', [ValRef(base), s]))

    SYNC_METHODS = {'join', 'parent', 'root', 'filename', 'extension', 'is_root', 'as_str'}

    def call(self, meth, vpath, *args):
        if meth in self.SYNC_METHODS:
            return self.guard(lambda: self.F(self.PATH + meth, [ValRef(vpath)] + list(args)))
        return self.guard(lambda: self.acall(self.PATH + meth, [ValRef(vpath)] + list(args)))

    def read_dir(self, p):
        o = self.call('read_dir', p)
        if o.ok:
            try:
                o.value = self.drain_stream(o.value)
            except Panic as pn:
                return Outcome('panic', msg=pn.msg, where=pn.where)
        return o

    def drain_stream(self, st):
        out = []
        cx = Ref([Adt('Context', None, [])], 0)
        pend = 0
        for _ in range(4000):
            r = asyncrt.stream_next(self.ex, st, cx)
            if r.variant == 'Pending':
                pend += 1
                if pend > 400:
                    raise Bound('stream pending for more than 400 polls')
                continue
            o = r.fields[0]
            if o.variant == 'None':
                return out
            out.append(o.fields[0])
        raise Bound('stream longer than bound')

    def walk_dir(self, p):
        o = self.call('walk_dir', p)
        if o.ok:
            try:
                items = self.drain_stream(o.value)
            except Panic as pn:
                return Outcome('panic', msg=pn.msg, where=pn.where)
            o.value = [self.norm(x) for x in items]
        return o

    # handles
    def h_write(self, h, data):
        def go():
            r = asyncrt.dyn_poll(self.ex, h, 'AsyncWrite', 'poll_write', [ValRef(S(data))])
            return r.fields[0]
        return self.guard(go)

    def h_flush(self, h):
        return self.guard(lambda: asyncrt.dyn_poll(self.ex, h, 'AsyncWrite', 'poll_flush', []).fields[0])

    def h_seek(self, h, variant, off):
        return self.guard(lambda: asyncrt.dyn_poll(self.ex, h, 'AsyncSeek', 'poll_seek', [Adt('SeekFrom', variant, [off])]).fields[0])

    def h_read(self, h, n):
        buf = [S((0,) * n)]
        o = self.guard(lambda: asyncrt.dyn_poll(self.ex, h, 'AsyncRead', 'poll_read', [Ref(buf, 0)]).fields[0])
        if o.ok:
            o.value = (o.value, buf[0])
        return o

    def write_all(self, h, data):
        return self.guard(lambda: asyncrt.handle_write_all(self.ex, h, data))
