"""PhysicalFS over the OS contract model (mirsym/osm.py)"""
from mirsym.values import *   # noqa
from mirsym import osm as osmodel


def new_phys(sr):
    ex, w = sr.ex, sr.w
    o = osmodel.osm(ex)
    k = len([1 for key in o.nodes if len(key) == 1])
    name = ('osroot%d' % k).encode()
    o.nodes[(tuple(name),)] = osmodel.OsDir(ex)
    fs = w.F('PhysicalFS::new', [S(b'/' + name)])
    sr.__dict__.setdefault('phys_roots', {})
    sr._last_phys_root = tuple(name)
    return w.F('path::VfsPath::new', [fs])


def raw_file(sr, var, name_bytes):
    """a file created on disk behind the library's back (hostile directory content)"""
    o = osmodel.osm(sr.ex)
    root = sr.phys_roots[var]
    f = osmodel.OsFile(sr.ex)
    f.data = S(b'x')
    o.nodes[(root, tuple(name_bytes))] = f


def raw_socket(sr, var, name_bytes):
    """a unix socket bound in the directory behind the library's back: an entry that is neither file nor directory"""
    o = osmodel.osm(sr.ex)
    root = sr.phys_roots[var]
    o.nodes[(root, tuple(name_bytes))] = osmodel.OsSpecial(sr.ex)


def raw_dangling_link(sr, var, name_bytes):
    """a symbolic link to a target that does not exist"""
    o = osmodel.osm(sr.ex)
    root = sr.phys_roots[var]
    o.nodes[(root, tuple(name_bytes))] = osmodel.OsDangling(sr.ex)
