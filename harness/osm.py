"""PhysicalFS over the OS contract model (mirsym/osm.py)"""
from mirsym.values import *   # noqa
from mirsym import osm as osmodel


def new_phys(sr):
    ex, w = sr.ex, sr.w
    o = osmodel.osm(ex)
    k = len([1 for key in o.nodes if len(key) == 1])
    name = ('osroot%d' % k).encode()
    o.nodes[(tuple(name),)] = osmodel.OsDir(ex)
    fs = w.F('PhysicalFS::new', [S(b'/' + name)])
    return w.F('path::VfsPath::new', [fs])
