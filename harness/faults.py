"""C20: underlying failures are never reported as success.

Every call that an adapter (OverlayFS, AltrootFS) or a composite path operation dispatches to an
underlying filesystem can fail: for each operation the fault-free run is counted first, then the
k-th underlying call is made to fail for every k.  Oracle: the operation returns/yields an error,
or it returns success and the full effect prescribed by the contract is in place (observed with
faults switched off).  Never a panic; lower overlay layers stay untouched."""
import z3

from mirsym.engine import explore, Stats
from mirsym.values import *   # noqa
from .core import *           # noqa
from .framework import CaseResult, make_finding
from .script import ScriptRunner, hx
from .onestep import target_class, check_post_state
from .overlay import layer_role, cfg_str
from . import overlay as ovl

OPS1 = ['create_dir', 'write', 'append', 'remove_file', 'remove_dir', 'create_dir_all', 'remove_dir_all',
        'exists', 'metadata', 'read', 'read_dir', 'read_to_string', 'walk_dir', 'is_dir', 'is_file']
OPS2 = ['copy_file', 'move_file', 'copy_dir', 'move_dir']


def build(sr, u, config, state):
    """-> (abstract tree, list of ctl ids, lower layer trees {ctl: (prefix, tree)})"""
    ex = sr.ex
    st = Setup(sr, u)
    lowers = {}
    if config == 'plain':
        sr.do('fs R wmem m')
        st.define_paths('R')
        t = st.build(state, lens=[1, 0, 2])
        return t, ['m'], lowers
    if config == 'alt':
        sr.do('fs U wmem m')
        sr.do('join uP U %s' % hx(b'p'))
        sr.do('create_dir uP')
        sr.do('fs R alt uP')
        st.define_paths('R')
        t = st.build(state, lens=[1, 0, 2])
        return t, ['m'], lowers
    if config == 'ovl':
        n = 2
        trees = []
        for i in range(n):
            sr.do('fs L%d wmem l%d' % (i, i))
            st.define_paths('L%d' % i, 'L%d_' % i)
            shape = tuple((v, k) for v, k, s in state if i in s)
            trees.append(st.build(shape, prefix='L%d_' % i, lens=[1, 0, 2][i:] + [1, 0, 2][:i], tag='c%d' % i))
        sr.do('fs R ovl L0 L1')
        st.define_paths('R')
        m = Tree(u)
        for v, k, s in state:
            m.n[v] = trees[min(s)].n[v]
        lowers['l1'] = ('L1_', trees[1])
        return m, ['l0', 'l1'], lowers
    raise ValueError(config)


def expected(t, op, v, dst, data):
    if op in OPS2:
        from .transfer import transfer_contract
        return None      # handled by caller
    return contract(t, op if op not in ('walk_dir',) else 'read_dir', v, data=data)


def run_transfer(ex, sr, t, ctls, arm, op, src, dst, counts, findings):
    """copy_file / move_file / copy_dir / move_dir on one instance under a fault"""
    from .transfer import transfer_contract
    u = t.u
    before = {c: sr.ctls[c].count for c in ctls}
    if arm is not None:
        sr.do('arm %s %d' % arm)
    out = sr.do('%s %s %s' % (op, src, dst))
    o = sr.last
    for c in ctls:
        counts[c] = max(counts.get(c, 0), sr.ctls[c].count - before[c])
    if arm is None:
        return findings
    fired = sr.ctls[arm[0]].fired
    sr.do('disarm %s' % arm[0])
    if not fired:
        return findings
    key = 'plain|%s|src=%s|dst=%s|fault@underlying' % (op, target_class(t, src), target_class(t, dst))
    if o.tag in ('panic', 'deadlock'):
        findings.append(make_finding('C20', key + '|panic:%s' % (o.where or '?'), '%s panics when underlying call #%d fails: %s' % (op, arm[1], o.msg), sr))
        return findings
    status, nts, ntd, ret, why = transfer_contract(op, t, t, src, dst, True)
    if o.ok:
        if status == 'err':
            findings.append(make_finding('C20', key + '|success_instead_of_contract_error', '%s returned Ok under a fault although %s' % (op, why), sr))
        elif status == 'ok':
            nf = len(findings)
            check_post_state(sr, u, nts, key, findings, 'partial_effect_reported_as_success', prop='C20')
            findings[nf:] = [f_ for f_ in findings[nf:] if ':foreign' not in f_.key]
            if op == 'copy_dir' and o.value != ret:
                findings.append(make_finding('C20', key + '|wrong_count_reported_as_success', 'copy_dir returned %s under a fault, %d entries were to be copied' % (o.value, ret), sr))
    return findings


def run_fault_case(prog, params):
    res = CaseResult()
    res.states = 1
    u = UNIVERSES[params['universe']]()
    config, state = params['config'], params['state']
    for item in params['ops']:
        op, v = item[0], item[1]
        dst = item[2] if len(item) > 2 else None
        # ---- pass 1: fault-free run, count the calls reaching each underlying filesystem
        counts = {}

        def run(ex, arm=None, op=op, v=v, dst=dst):
            findings = []
            sr = ScriptRunner(ex)
            t, ctls, lowers = build(sr, u, config, state)
            if dst is not None:
                return run_transfer(ex, sr, t, ctls, arm, op, v, dst, counts, findings)
            # fault-free pre-history (e.g. removals that leave overlay markers behind); the model follows the contract
            for (pop, pv) in params.get('pre', ()):
                pe = contract(t, pop, pv)
                sr.do('%s %s' % (pop, pv))
                if pe.status == 'ok' and sr.last.ok:
                    t = pe.tree
                elif not (pe.status == 'err' and not sr.last.ok):
                    raise Infeasible()       # this pre-history is not a contract-conforming one: other checks report it
            data = None
            if op in ('write', 'append'):
                sr.syms['wdata'] = sym_content(ex, 1, 'wdata')
                data = sr.syms['wdata']
                line = '%s %s $wdata' % (op, v)
            elif op == 'read':
                line = 'read %s 3' % v
            else:
                line = '%s %s' % (op, v)
            before = {c: sr.ctls[c].count for c in ctls}
            if arm is not None:
                sr.do('arm %s %d' % arm)
            out = sr.do(line)
            o = sr.last
            for c in ctls:
                counts[c] = max(counts.get(c, 0), sr.ctls[c].count - before[c])
            if arm is None:
                return findings
            fired = sr.ctls[arm[0]].fired
            sr.do('disarm %s' % arm[0])
            key = '%s%s|%s|%s|fault@%s' % (config, ('+after:' + '+'.join(p_[0] for p_ in params['pre'])) if params.get('pre') else '', op, target_class(t, v), 'upper' if arm[0] == 'l0' else ('lower' if arm[0] == 'l1' else 'underlying'))
            if not fired:
                return findings
            if o.tag in ('panic', 'deadlock'):
                findings.append(make_finding('C20', key + '|panic:%s' % (o.where or '?'), '%s panics when underlying call #%d fails: %s' % (op, arm[1], o.msg), sr))
                return findings
            if 'C12' in params.get('props', ()) and o.tag == 'err' and o.path is not None:
                pth = S(o.path)
                if pth.is_concrete() and bytes(pth) == b'PATH NOT FILLED BY VFS LAYER':
                    findings.append(make_finding('C12', key + '|placeholder:%s' % op, '%s returns the injected failure with the unfilled placeholder as its path' % op, sr))
                elif pth.is_concrete():
                    mine = bytes(sr.w.as_str(sr.paths[v]))
                    if not (bytes(pth) == mine or mine.startswith(bytes(pth) + b'/') or bytes(pth).startswith(mine + b'/') or (mine == b'' )):
                        findings.append(make_finding('C12', key + '|foreign_path:%s' % op, '%s on %r returns an error naming %r' % (op, mine, bytes(pth)), sr))
            exp = contract(t, 'read_dir' if op == 'walk_dir' else op, v, data=data)
            if o.ok and op == 'walk_dir':
                items = o.value
                if any(not isinstance(x, tuple) for x in items):       # an Err item was yielded
                    return findings
            if o.ok:
                # success: the full effect must be in place, the answer must be the right one
                if exp.status == 'err':
                    findings.append(make_finding('C20', key + '|success_instead_of_contract_error',
                                                 '%s returned Ok under a fault although %s' % (op, exp.why), sr))
                    return findings
                if exp.status in ('ok', 'ok_or_utf8'):
                    if op in ('exists', 'is_dir', 'is_file') and o.value is not exp.ret:
                        findings.append(make_finding('C20', key + '|wrong_answer_reported_as_success',
                                                     '%s returned Ok(%s) when underlying call #%d failed; the true answer is %s' % (op, o.value, arm[1], exp.ret), sr))
                        return findings
                    if op in ('read', 'read_to_string') and (len(o.value) != len(exp.ret) or ex.check(seq_eq(o.value, exp.ret), 'bytes') is not None):
                        findings.append(make_finding('C20', key + '|wrong_bytes_reported_as_success', '%s returned wrong bytes under a fault' % op, sr))
                        return findings
                    if op == 'metadata' and o.value[:2] != exp.ret:
                        findings.append(make_finding('C20', key + '|wrong_metadata_reported_as_success', 'metadata returned %r under a fault' % (o.value[:2],), sr))
                        return findings
                    if op in ('read_dir', 'walk_dir'):
                        names = o.value
                        want = exp.ret if op == 'read_dir' else [d_ for d_ in u.descendants(v) if d_ in t.n]
                        cands = [(c, sr.w.as_str(sr.paths[c])) for c in u.vars if c != 'R']
                        matched, foreign = match_names(ex, names, cands)
                        foreign = [x for x in foreign if not (S(x).is_concrete() and bytes(x).startswith(b'/.whiteout'))]
                        if sorted(matched) != sorted(want) or foreign:
                            findings.append(make_finding('C20', key + '|incomplete_listing_reported_as_success',
                                                         '%s returned %s under a fault, the directory holds %s' % (op, sorted(matched), sorted(want)), sr))
                            return findings
                    nf = len(findings)
                    check_post_state(sr, u, exp.tree, key, findings, 'partial_effect_reported_as_success', prop='C20')
                    findings[nf:] = [f_ for f_ in findings[nf:] if ':foreign' not in f_.key]
            # lower layers are never modified, faults or not
            for cid, (prefix, ltree) in lowers.items():
                lsnap = snapshot(sr, u, prefix=prefix)
                ld, lo = compare_tree(sr, u, lsnap, ltree, prefix=prefix)
                for dv, kind, detail in ld:
                    findings.append(make_finding('C20', key + '|lower_layer_changed', 'lower layer changed under a fault: %s %s' % (dv, detail), sr))
            ex.stats.asserts += 1       # the oracle of this (operation, target, failing call) run, decided on the path's values
            if not findings:
                ex.stats.discharged += 1
            if not res.samples:
                res.samples.append({'config': config, 'state': cfg_str(state) if config == 'ovl' else shape_str(state), 'call': line,
                                    'failing_underlying_call': '%s #%d' % arm, 'outcome': out})
            return findings
        st0 = Stats()
        _, inc = explore(prog, lambda ex: run(ex, None), st0)
        res.stats.merge(st0)
        if inc:
            res.inconclusive += inc
            continue
        for cid, n in sorted(counts.items()):
            for k in range(1, n + 1):
                fs, inc = explore(prog, lambda ex, cid=cid, k=k: run(ex, (cid, k)), res.stats)
                res.findings += fs
                res.inconclusive += inc
                res.evals += 1
    return res
