"""Engine-side twin of the native driver's recording / fault-injecting FileSystem wrapper:
calls dispatched through `dyn FileSystem` to a registered filesystem object are counted, logged
(mutating ones) and, when armed, the k-th call fails with an io::Error(Other) without reaching
the filesystem (DESIGN §2.7)."""
from mirsym.values import *   # noqa
from mirsym import models

MUTATING = {'create_dir', 'create_file', 'append_file', 'remove_file', 'remove_dir', 'set_creation_time',
            'set_modification_time', 'set_access_time', 'copy_file', 'move_file', 'move_dir'}


class Ctl:
    def __init__(self, fsobj):
        self.fs, self.count, self.fail_at, self.log = fsobj, 0, None, []
        self.fired = False


def _hook(sr):
    def on_call(ex, callee, args):
        if not callee.startswith('<dyn FileSystem as FileSystem>::') or not args:
            return None
        recv = deref(args[0])
        for cid, c in sr.ctls.items():
            if recv is c.fs:
                meth = callee.rsplit('::', 1)[1]
                c.count += 1
                if meth in MUTATING:
                    p = S(deref(args[1]))
                    c.log.append('%s:%s' % (meth, bytes(p).hex() if p.is_concrete() and len(p) else ('-' if not len(p) else '?')))
                if c.fail_at == c.count:
                    c.fail_at = None
                    c.fired = True
                    f = ex.resolve('<VfsError as From<std::io::Error>>::from', [])
                    e = ex.run_fn(f, [models.io_error('Other', 'injected fault')])
                    return (Err(e),)
                return None
        return None
    return on_call


def new_wrapped(sr, kind, cid, inner):
    w = sr.w
    if kind != 'wmem':
        raise Unmodelled('wrapped fs kind ' + kind)
    root = w.new_mem()
    sr.ctls[cid] = Ctl(w.fs_of(root))
    sr.ex.hooks['call'] = _hook(sr)
    return root


def ctl_op(sr, t):
    c = sr.ctls[t[1]]
    if t[0] == 'arm':
        c.fail_at = c.count + int(t[2])
        c.fired = False
        return 'ok'
    if t[0] == 'disarm':
        c.fail_at = None
        return 'ok'
    if t[0] == 'log':
        s = ','.join(c.log)
        c.log = []
        return 'ok:' + (s or '-')
    raise Unmodelled('ctl op ' + t[0])
