"""Encoder selftest (DESIGN §2.9): seeded random operation scripts — including wrong-type calls,
hostile join strings, seeks at odd offsets and stacked adapters — are executed natively and in
the MIR engine with all inputs concrete; every output line must agree.  This validates the
*encoding and the environment models*, not a property.  A mismatch makes checks inconclusive."""
import random
import sys
import time

from mirsym.engine import Exec, Stats, explore
from mirsym.values import *   # noqa
from .script import ScriptRunner, run_native, hx

NAMES = ['a', 'ab', 'a.b', 'b', 'c', '.whiteout', 'x_wo', 'é', 'a b', '...', 'f.txt', 'foo', 'foo.txt']
JOINS = ['..', '.', '../a', 'a/../b', '/a', '/', 'a//b', './a', 'a/', '../..', 'a/./b', '/a/b/../c', '....', 'a/..', '']
BYTES = [b'', b'x', b'hi', b'\xff', b'abc', b'\xc3\xa9', b'\x00\x01\x02\x03']


def ref_join(base, arg):
    """reference lexical resolution (independent of the crate): None = invalid"""
    if arg == '':
        return base
    if len(arg) > 1 and arg.endswith('/'):
        return None
    comps = [] if arg.startswith('/') else [c for c in base.split('/') if c]
    for c in arg.split('/'):
        if c in ('', '.'):
            continue
        if c == '..':
            if comps:
                comps.pop()
        else:
            comps.append(c)
    return ''.join('/' + c for c in comps)


ASYNC_KINDS = {'amem': 'mem', 'aalt': 'alt', 'aovl': 'ovl', 'aovl3': 'ovl3', 'aaltovl': 'altovl', 'aovlalt': 'ovlalt'}


def gen_script(rng, nops=14, kinds=None, tag=''):
    kind = rng.choice(kinds or ['mem', 'mem', 'alt', 'ovl', 'ovl', 'ovl3', 'altovl', 'ovlalt'])
    if kind in ASYNC_KINDS:
        # the same generator, run through the async API: filesystem kinds are renamed, unsupported ops dropped
        L = _gen_script(rng, nops, ASYNC_KINDS[kind], tag, async_mode=True)
        out = []
        for l in L:
            t = l.split()
            if t[0] == 'fs':
                t[2] = {'mem': 'amem', 'alt': 'aalt', 'ovl': 'aovl'}[t[2]]
            out.append(' '.join(t))
        return out
    return _gen_script(rng, nops, kind, tag)


def _gen_script(rng, nops, kind, tag, async_mode=False):
    L = []
    strs = {'R': ''}
    vars_ = []

    def newvar():
        v = 'p%d' % len(vars_)
        vars_.append(v)
        return v

    def populate(root, n):
        made = []
        for _ in range(n):
            base = rng.choice([root] + made)
            v = newvar()
            L.append('join %s %s %s' % (v, base, hx(rng.choice(NAMES[:7]).encode())))
            if rng.random() < 0.5:
                L.append('create_dir %s' % v)
                made.append(v)
            else:
                L.append('write %s %s' % (v, hx(rng.choice(BYTES))))
    if kind == 'mem':
        L.append('fs R mem')
    elif kind == 'phys':
        L.append('fs R phys')
    elif kind == 'altphys':
        L.append('fs U phys')
        populate('U', rng.randint(1, 4))
        v = newvar()
        L.append('join %s U %s' % (v, hx(rng.choice(['a', 'a/b', 'b']).encode())))
        if rng.random() < 0.8:
            L.append('create_dir_all %s' % v)
        L.append('fs R alt %s' % v)
    elif kind == 'ovlphys':
        L.append('fs L0 phys')
        populate('L0', rng.randint(0, 2))
        L.append('fs L1 ' + rng.choice(['mem', 'phys']))
        populate('L1', rng.randint(0, 4))
        L.append('fs R ovl L0 L1')
    elif kind == 'alt':
        L.append('fs U mem')
        populate('U', rng.randint(1, 4))
        v = newvar()
        L.append('join %s U %s' % (v, hx(rng.choice(['a', 'a/b', '', 'b']).encode())))
        if rng.random() < 0.8:
            L.append('create_dir_all %s' % v)
        L.append('fs R alt %s' % v)
    elif kind in ('ovl', 'ovl3'):
        n = 3 if kind == 'ovl3' else 2
        for i in range(n):
            L.append('fs L%d mem' % i)
            populate('L%d' % i, rng.randint(0, 4) if i else rng.randint(0, 2))
        L.append('fs R ovl ' + ' '.join('L%d' % i for i in range(n)))
    elif kind == 'altovl':
        L.append('fs L0 mem'); L.append('fs L1 mem')
        populate('L1', rng.randint(1, 4))
        L.append('fs O ovl L0 L1')
        v = newvar()
        L.append('join %s O %s' % (v, hx(b'a')))
        L.append('create_dir_all %s' % v)
        L.append('fs R alt %s' % v)
    elif kind == 'ovlalt':
        L.append('fs U mem')
        populate('U', rng.randint(1, 4))
        v = newvar()
        L.append('join %s U %s' % (v, hx(b'a')))
        L.append('create_dir_all %s' % v)
        L.append('fs A alt %s' % v)
        L.append('fs L1 mem')
        populate('L1', rng.randint(0, 3))
        L.append('fs R ovl A L1')
    pv = ['R']
    hcount = 0
    handles = []
    for _ in range(nops):
        r = rng.random()
        if r < 0.25 or len(pv) < 2:
            v = newvar()
            arg = rng.choice(NAMES) if rng.random() < 0.7 else rng.choice(JOINS)
            if rng.random() < 0.2:
                arg = arg + '/' + rng.choice(NAMES)
            b = rng.choice(pv)
            L.append('join %s %s %s' % (v, b, hx(arg.encode())))
            # a failed join leaves the var undefined: only use it when the join cannot fail
            r_ = ref_join(strs[b], arg)
            if r_ is not None:
                pv.append(v)
                strs[v] = r_
            continue
        p = rng.choice(pv)
        q = rng.choice(pv)
        op = rng.choice(['create_dir', 'create_dir', 'write', 'write', 'append', 'remove_file', 'remove_dir', 'exists',
                         'metadata', 'read_dir', 'read', 'read_to_string', 'walk_dir', 'is_file', 'is_dir',
                         'create_dir_all', 'remove_dir_all', 'copy_file', 'move_file', 'copy_dir', 'move_dir',
                         'set_time', 'times', 'filename', 'extension', 'parent', 'eq', 'is_root', 'handle'])
        if async_mode and op in ('set_time', 'times', 'extension', 'eq'):
            continue
        if op == 'remove_dir_all' and 'ovl' in kind and strs[p] == '':
            continue      # removing the overlay root creates markers while iterating: outcome depends on hash order
        if op in ('write', 'append'):
            L.append('%s %s %s' % (op, p, hx(rng.choice(BYTES))))
        elif op == 'read':
            L.append('read %s %d' % (p, rng.choice([1, 2, 3, 5])))
        elif op in ('copy_file', 'move_file', 'copy_dir', 'move_dir', 'eq'):
            if op in ('copy_dir', 'move_dir') and (strs[q] + '/').startswith(strs[p] + '/'):
                continue        # destination inside the source: documented non-termination
            L.append('%s %s %s' % (op, p, q))
        elif op == 'set_time':
            # (access times of a real filesystem are updated by the kernel on reads: not compared for phys kinds)
            L.append('set_time %s %s %d' % (p, rng.choice('cm' if 'phys' in kind else 'cma'), rng.randint(1, 99999)))
        elif op == 'parent':
            v = newvar()
            L.append('parent %s %s' % (v, p))
            pv.append(v)
            strs[v] = strs[p][:strs[p].rfind('/')] if '/' in strs[p] else ''
        elif op == 'handle':
            h = 'h%s_%d' % (tag, hcount)
            hcount += 1
            mode = rng.choice(['create', 'append', 'open', 'open'])
            L.append('hopen %s %s %s' % (h, p, mode))
            # the open may fail: following ops on a missing handle are a script error, so guard by
            # only emitting them in a block the runner skips when the handle is absent (see 'h?')
            for _ in range(rng.randint(1, 4)):
                if mode == 'open':
                    c = rng.choice(['hread', 'hseek', 'hread'])
                else:
                    c = rng.choice(['hwrite', 'hseek', 'hflush', 'hwrite'] if not async_mode else ['hwrite', 'hflush'])
                if c == 'hread':
                    L.append('?%s hread %s %d' % (h, h, rng.choice([0, 1, 2, 3])))
                elif c == 'hwrite':
                    L.append('?%s hwrite %s %s' % (h, h, hx(rng.choice(BYTES))))
                elif c == 'hflush':
                    L.append('?%s hflush %s' % (h, h))
                else:
                    if mode == 'open':
                        # reader seeks: keep within what both real code and Cursor treat alike? no: any offset
                        off = rng.choice([0, 1, 2, 3, 5, -1, -2])
                    else:
                        off = rng.choice([0, 1, 2, 3, -1, -2])
                    wh = rng.choice(['start', 'cur', 'end'])
                    if wh == 'start':
                        off = abs(off)
                    L.append('?%s hseek %s %s %d' % (h, h, wh, off))
            if rng.random() < 0.8:
                L.append('hdrop %s' % h)
                if mode != 'open':
                    L.append('read %s 2' % p)
        else:
            L.append('%s %s' % (op, p))
    return L


def resolve_guards(lines, native_out_fn):
    """'?h op ...' lines run only if handle h was opened successfully.  To keep both sides in
    lock-step without conditional syntax in the drivers, scripts are generated in two passes:
    pass 1 runs the script without guarded lines natively to learn which hopen calls succeed."""
    probe = [l for l in lines if not l.startswith('?')]
    out = native_out_fn('\n'.join(probe))
    okh = set()
    for l, o in zip(probe, out):
        if l.startswith('hopen ') and o.split(' ', 1)[1] == 'ok':
            okh.add(l.split()[1])
    res = []
    for l in lines:
        if l.startswith('?'):
            h, rest = l[1:].split(' ', 1)
            if h in okh:
                res.append(rest)
        else:
            res.append(l)
    return res


def run_selftest(prog, seed, nscripts, nops=14, kinds=None, verbose=False, profile='dev'):
    """-> (n_scripts, n_lines, mismatches list)"""
    rng = random.Random(seed)
    scripts = []
    for k in range(nscripts):
        scripts.append(gen_script(rng, nops, kinds, tag=str(k)))
    # resolve handle guards with one native probe run over all scripts
    joined = []
    for s in scripts:
        joined += s + ['reset']
    joined = resolve_guards(joined, lambda t: run_native(t, profile=profile))
    text = '\n'.join(joined)
    nat = run_native(text, profile=profile)
    # engine: one path per script block (concrete inputs: no forks expected)
    blocks, cur = [], []
    for l in joined:
        cur.append(l)
        if l == 'reset':
            blocks.append(cur)
            cur = []
    eng = []
    incon = []
    stats = Stats()
    lineno = 0
    ORDERS = [None, lambda ex, items: list(reversed(items)), lambda ex, items: items[1:] + items[:1]]
    order_sensitive = 0
    for b in blocks:
        outs = []
        bad = None
        for order in ORDERS:
            res = {}

            def h(ex, b=b, res=res, order=order):
                if order is not None:
                    ex.hooks['map_order'] = order
                r = ScriptRunner(ex)
                res['out'] = r.run('\n'.join(b))
                return []
            _, inc = explore(prog, h, stats)
            if inc:
                bad = inc
                break
            outs.append(res['out'])
        if bad and all('OUTSIDE-OSM' in b_ for b_ in bad):
            # the script wandered outside the OS contract model (stated bound): not compared
            eng += ['%d ORDER-SENSITIVE' % (lineno + i + 1) for i in range(len(b))]
            order_sensitive += len(b)
        elif bad:
            incon += bad
            eng += ['%d INCONCLUSIVE %s' % (lineno + i + 1, bad[0]) for i in range(len(b))]
        else:
            # hash-map iteration order is arbitrary: from the first line on which the engine's own
            # runs under different iteration orders disagree, the rest of the script is not compared
            cut = None
            for i in range(len(outs[0])):
                if any(o[i] != outs[0][i] for o in outs[1:]):
                    cut = i
                    break
            for i, o in enumerate(outs[0]):
                n, rest = o.split(' ', 1)
                if cut is not None and i >= cut:
                    rest = 'ORDER-SENSITIVE'
                    order_sensitive += 1
                eng.append('%d %s' % (int(n) + lineno, rest))
        lineno += len(b)
    mism = []
    for i, (x, y) in enumerate(zip(nat, eng)):
        if x != y and not y.endswith('ORDER-SENSITIVE'):
            ln = int(x.split(' ', 1)[0])
            mism.append((ln, joined[ln - 1], x, y))
    if len(nat) != len(eng):
        mism.append((0, 'length', str(len(nat)), str(len(eng))))
    if verbose:
        for m in mism[:30]:
            # print the script block leading to the mismatch
            print('MISMATCH line %d: %s\n   native: %s\n   engine: %s' % m)
    return len(scripts), len(joined), mism, incon, stats, joined
