"""OverlayFS: bounded histories from symbolic initial layers (DESIGN §4.5, C08/C09/C10 and the
overlay parts of C01/C03/C05/C12/C13).

Initial layers: every assignment of the nodes of a union tree to non-empty sets of layers (each
layer a well-formed tree built through its own public API; a file present in several layers has
different symbolic bytes in each).  Type conflicts between layers are outside the bound.  The
model is the merged tree; afterwards the plain tree contract applies (C09), removed entries stay
absent until re-created (C10), and no mutating call ever reaches a lower layer (C08)."""
import itertools
import z3

from mirsym.engine import explore
from mirsym.values import *   # noqa
from .core import *           # noqa
from .framework import CaseResult, make_finding
from .script import ScriptRunner, hx
from . import onestep
from .onestep import target_class, op_line, check_outcome, check_post_state, check_wellformed, check_errors, consistency

MUTATING = {'create_dir', 'create_file', 'append_file', 'remove_file', 'remove_dir', 'set_creation_time',
            'set_modification_time', 'set_access_time', 'copy_file', 'move_file', 'move_dir'}


def UO3():
    return Universe([Node('a', 'R', 'a'), Node('ab', 'R', 'ab'), Node('a_b', 'a', 'b'), Node('x', 'R', 'x', True)], 'UO3')


def UOW():
    """names that end in the marker suffix next to their stems"""
    # the *_wo entries are files only: a directory named <stem>_wo collides with the marker of <stem> by design
    # (which is why '*_wo' is reserved); as plain files they are ordinary entries of the unchanged code
    return Universe([Node('a', 'R', 'a'), Node('awo', 'R', 'a_wo', kinds=('f',)), Node('a_b', 'a', 'b'),
                     Node('a_bwo', 'a', 'b_wo', kinds=('f',)), Node('x', 'R', 'x', True)], 'UOW')


def UOD():
    """a dotted sibling that sorts between a directory and its children ('/a' < '/a.b' < '/a/b')"""
    return Universe([Node('a', 'R', 'a'), Node('adb', 'R', 'a.b'), Node('a_b', 'a', 'b'), Node('x', 'R', 'x', True)], 'UOD')


def UOT():
    """transfers inside one overlay: a directory with a child, a root file, and the image positions /x, /x/b"""
    return Universe([Node('a', 'R', 'a'), Node('a_b', 'a', 'b'), Node('f', 'R', 'f', kinds=('f',)), Node('x', 'R', 'x', True),
                     Node('x_b', 'x', 'b', True)], 'UOT')


TRANSFERS = [('move_file', 'f', 'x'), ('copy_file', 'f', 'x'), ('move_file', 'a_b', 'x'), ('copy_file', 'a_b', 'x'), ('move_file', 'f', 'a_b'),
             ('move_file', 'a_b', 'x_b'), ('move_dir', 'a', 'x'), ('copy_dir', 'a', 'x'), ('move_dir', 'a_b', 'x'), ('copy_file', 'f', 'a'),
             ('move_file', 'a', 'x'), ('move_dir', 'f', 'x')]


def UO4():
    return Universe([Node('a', 'R', 'a'), Node('ab', 'R', 'ab'), Node('a_b', 'a', 'b'), Node('a_b_c', 'a_b', 'c'),
                     Node('x', 'R', 'x', True)], 'UO4')


UNIVERSES.update({'UO3': UO3, 'UOW': UOW, 'UO4': UO4, 'UOD': UOD, 'UOT': UOT})


def layer_configs(u, nlayers, max_nodes=None):
    """all (union shape, layer assignment): list of tuples (var, kind, frozenset(layers))"""
    out = []
    all_layers = frozenset(range(nlayers))
    subsets = [frozenset(c) for r in range(1, nlayers + 1) for c in itertools.combinations(range(nlayers), r)]
    for sh in shapes(u):
        if max_nodes is not None and len(sh) > max_nodes:
            continue

        def rec(i, cur):
            if i == len(sh):
                out.append(tuple(cur))
                return
            v, k = sh[i]
            par = u.parent(v)
            pset = all_layers if par == 'R' else dict((x[0], x[2]) for x in cur)[par]
            for s in subsets:
                if s <= pset:
                    cur.append((v, k, s))
                    rec(i + 1, cur)
                    cur.pop()
        rec(0, [])
    return out


def cfg_str(cfg):
    return ','.join('%s:%s@%s' % (v, k, ''.join(str(i) for i in sorted(s))) for v, k, s in cfg) or '(empty)'


def layer_role(cfg, v, nlayers):
    for var, k, s in cfg:
        if var == v:
            if s == frozenset([0]):
                return 'upper'
            if 0 in s:
                return 'both'
            return 'lower'
    return 'none'


class Overlay:
    def __init__(self, sr, u, cfg, nlayers, lens=(1, 0, 2), layer_kind='mem', lower_markers=False):
        self.sr, self.u, self.cfg, self.n = sr, u, cfg, nlayers
        ex = sr.ex
        self.layer_trees = []
        self.layer_kind = layer_kind
        st = Setup(sr, u)
        if layer_kind == 'physshared':
            sr.do('fs PH phys')        # all layers are directories of ONE PhysicalFS instance (same-fs fast paths apply)
        if layer_kind == 'memsub':
            sr.do('fs PH mem')         # all layers are sub-directories of ONE MemoryFS: a layer root is not a filesystem root
        for i in range(nlayers):
            if layer_kind in ('physshared', 'memsub'):
                sr.do('join L%d PH %s' % (i, hx(('layer%d' % i).encode())))
                sr.do('create_dir L%d' % i)
            else:
                sr.do('fs L%d mem' % i)
            st.define_paths('L%d' % i, 'L%d_' % i)
            shape = tuple((v, k) for v, k, s in cfg if i in s)
            t = st.build(shape, prefix='L%d_' % i, lens=lens[i:] + lens[:i], tag='c%d' % i)
            self.layer_trees.append(t)
            if lower_markers and i >= 1:
                # a lower layer that was once the upper layer of another overlay: it carries markers of its own
                sr.do('join L%d_wo L%d %s' % (i, i, hx(b'.whiteout')))
                sr.do('create_dir L%d_wo' % i)
                for n_ in u.nodes:
                    if n_.parent == 'R' and n_.name is not None:
                        sr.do('join L%d_wo_%s L%d_wo %s' % (i, n_.var, i, hx((n_.name + '_wo').encode())))
                        sr.do('write L%d_wo_%s 00' % (i, n_.var))
        sr.do('fs R ovl ' + ' '.join('L%d' % i for i in range(nlayers)))
        st.define_paths('R')
        # merged model: first layer that has the path wins
        m = Tree(u)
        for v, k, s in cfg:
            first = min(s)
            m.n[v] = self.layer_trees[first].n[v]
        self.model = m
        self.layer_fs = [sr.w.fs_of(sr.paths['L%d' % i]) for i in range(nlayers)]
        self.log = []
        ex.hooks['call'] = self.on_call

    def on_call(self, ex, callee, args):
        if callee.startswith('<dyn FileSystem as FileSystem>::') and args:
            recv = deref(args[0])
            meth = callee.rsplit('::', 1)[1]
            if self.layer_kind in ('physshared', 'memsub'):
                if recv is self.layer_fs[0] and len(args) > 1:
                    # copy_file(src, dst) mutates dst only; move_* mutate both (src logged by the loop below as well)
                    p_ = S(deref(args[2] if meth == 'copy_file' and len(args) > 2 else args[1]))
                    if meth in ('move_file', 'move_dir') and len(args) > 2:
                        q_ = S(deref(args[2]))
                        for i in range(self.n):
                            pre = ('/layer%d' % i).encode()
                            if q_.is_concrete() and (bytes(q_) == pre or bytes(q_).startswith(pre + b'/')):
                                self.log.append((i, meth, q_))
                    if p_.is_concrete():
                        for i in range(self.n):
                            pre = ('/layer%d' % i).encode()
                            if bytes(p_) == pre or bytes(p_).startswith(pre + b'/'):
                                self.log.append((i, meth, p_))
                                # copy_file / move_* name a second path
                                break
                return None
            for i, fs in enumerate(self.layer_fs):
                if recv is fs:
                    self.log.append((i, meth, deref(args[1]) if len(args) > 1 else None))
                    break
        return None


class PlainFS:
    """a single MemoryFS (or an AltrootFS over one) driven by the same history runner: multi-step histories expose state
    that the implementation carries between calls beside the tree itself (counters, caches)"""

    def __init__(self, sr, u, cfg, kind='mem', lens=(1, 0, 2)):
        self.sr, self.u, self.cfg, self.n = sr, u, cfg, 1
        st = Setup(sr, u)
        if kind == 'mem':
            sr.do('fs R mem')
        else:
            sr.do('fs U mem')
            sr.do('join uP U %s' % hx(b'p'))
            sr.do('create_dir uP')
            sr.do('fs R alt uP')
        st.define_paths('R')
        self.model = st.build(tuple((v, k) for v, k, s_ in cfg), lens=list(lens), tag='c')
        self.layer_trees = [self.model]
        self.layer_fs = []
        self.log = []


HIST_OPS = ['create_dir', 'write', 'append', 'remove_file', 'remove_dir', 'remove_dir_all', 'create_dir_all']
OBS_OPS = ['read', 'metadata', 'exists', 'read_dir', 'read_to_string']
TIME_OPS = ['set_time_c', 'set_time_m', 'set_time_a']


def run_history_case(prog, params):
    """params: universe, nlayers, cfg, history [(op, var)...], props"""
    res = CaseResult()
    u = UNIVERSES[params['universe']]()
    cfg, n = params['cfg'], params['nlayers']
    props = set(params['props'])
    res.states = 1
    for hist in params['histories']:
        def h(ex, hist=hist):
            findings = []
            sr = ScriptRunner(ex)
            sr.outcomes = []
            _do = sr.do

            def do(line):
                r = _do(line)
                sr.outcomes.append((line, sr.last))
                return r
            sr.do = do
            if params.get('plain'):
                ov = PlainFS(sr, u, cfg, kind=params['plain'])
            else:
                ov = Overlay(sr, u, cfg, n, layer_kind=params.get('layer_kind', 'mem'), lower_markers=params.get('lower_markers', False))
            t = ov.model
            removed = set()
            names = ('ovl%d' % n) if not params.get('plain') else params['plain']
            prev = []
            def check_lower(key_base, op, v):
                # C08 (ii): every lower layer is unchanged, observed through its own root
                for li in range(1, n):
                    lsnap = snapshot(sr, u, prefix='L%d_' % li)
                    ld, lo = compare_tree(sr, u, lsnap, ov.layer_trees[li], prefix='L%d_' % li)
                    for dv, kind, detail in ld:
                        if kind == 'foreign' and params.get('lower_markers') and '.whiteout' in detail:
                            continue        # the markers this lower layer was given initially (checked one by one below)
                        findings.append(make_finding('C08', '%s|layer%d_changed:%s' % (key_base, li, kind),
                                                     'layer %d changed by %s %s: %s %s' % (li, op, v, dv, detail), sr))
                    if params.get('lower_markers'):
                        for n_ in u.nodes:
                            if n_.parent == 'R' and n_.name is not None:
                                sr.do('exists L%d_wo_%s' % (li, n_.var))
                                if sr.last.ok and sr.last.value is not True:
                                    findings.append(make_finding('C08', '%s|layer%d_changed:marker_removed' % (key_base, li),
                                                                 'layer %d lost its own marker for %s after %s %s' % (li, n_.var, op, v), sr))
                    for dv, kind, cond in lo:
                        m = ex.check(cond, 'layer bytes')
                        if m is not None:
                            findings.append(make_finding('C08', '%s|layer%d_changed:bytes' % (key_base, li),
                                                         'layer %d file %s changed by %s %s' % (li, dv, op, v), sr, m))
            for step, item in enumerate(hist):
                op, v = item[0], item[1]
                dst = item[2] if len(item) > 2 else None
                role = layer_role(cfg, v, n) if t.kind(v) != 'absent' or step == 0 else 'n/a'
                key_base = '%s|%s|%s|init=%s%s' % (names, op, target_class(t, v) + (('->' + target_class(t, dst)) if dst else ''), role,
                                                   ('|after:' + '+'.join(prev)) if prev else '')
                start = len(sr.outcomes)
                ov.log = []
                if dst is not None:
                    from .transfer import transfer_contract
                    line, data = '%s %s %s' % (op, v, dst), None
                    out = sr.do(line)
                    o = sr.last
                    oplog = list(ov.log)
                    st_, nts_, _ntd, ret_, why_ = transfer_contract(op, t, t, v, dst, True)
                    # a refused transfer must leave the tree alone only when the destination exists (C11); other failures: unspecified here
                    if st_ == 'err' and why_ != 'destination exists':
                        st_ = 'unspecified'
                    exp = Expect(st_, None, nts_ if st_ == 'ok' else None, None, why_)
                else:
                    line, data = op_line(op, v, sr, ex, 1)
                    out = sr.do(line)
                    o = sr.last
                    oplog = list(ov.log)
                    exp = contract(t, op, v, data=data)
                if o.tag in ('panic', 'deadlock'):
                    findings.append(make_finding('C13', '%s|%s:%s' % (key_base, o.tag, o.where or '?'),
                                                 '%s on %s panics: %s' % (op, v, o.msg), sr))
                    break
                # C08 (i): no mutating call below the first layer
                if 'C08' in props:
                    for (li, meth, pth) in oplog:
                        if li > 0 and meth in MUTATING:
                            findings.append(make_finding('C08', '%s|mutating_call_on_layer%d:%s' % (key_base, li, meth),
                                                         '%s on the overlay issued %s(%r) to layer %d' % (op, meth, pth, li), sr))
                        if op in OBS_OPS and meth in MUTATING:
                            findings.append(make_finding('C08', '%s|observer_mutates:%s' % (key_base, meth),
                                                         'observer %s issued %s(%r) to layer %d' % (op, meth, pth, li), sr))
                ok_contract = True
                nf = len(findings)
                ctag = params.get('tag', 'C09')
                if dst is not None:
                    if exp.status == 'ok' and not o.ok and o.tag == 'err' and props & {'C09', 'C01', ctag}:
                        findings.append(make_finding(ctag, key_base + '|unexpected_err:%s' % o.kind, '%s %s -> %s must succeed but returned %s' % (op, v, dst, o.brief()), sr))
                    if exp.status == 'err' and o.ok and props & {'C09', 'C01', ctag}:
                        findings.append(make_finding(ctag, key_base + '|unexpected_ok', '%s %s -> %s succeeded although %s' % (op, v, dst, exp.why), sr))
                    ok_contract = len(findings) == nf
                elif props & {'C09', 'C01', ctag}:
                    check_outcome(props, out, exp, op, key_base, findings, sr, t, v, prop=ctag)
                    ok_contract = len(findings) == nf
                if exp.status == 'either':
                    t_next, what = t, 'changed_by_setter'
                elif exp.status in ('ok', 'ok_or_utf8') and o.ok:
                    t_next, what = exp.tree, 'post_state'
                elif exp.status == 'err' and not o.ok:
                    t_next, what = t, 'changed_on_failure'
                else:
                    t_next, what = None, None
                if t_next is None:
                    # contract violated (reported above) or unspecified: the model cannot follow; C03 still applies
                    if 'C03' in props and not (exp.status == 'unspecified' and v == 'R'):
                        snap = snapshot(sr, u)
                        check_wellformed(sr, u, snap, key_base, findings)
                    if 'C05' in props and not (exp.status == 'unspecified' and v == 'R'):
                        # the observers must agree with each other whatever state the call left behind
                        consistency(sr, u, snapshot(sr, u), None, key_base + '|after_contract_violation', findings, walk=True)
                    if 'C08' in props:
                        check_lower(key_base, op, v)      # lower layers stay untouched whatever the contract says about the call
                    break
                # observe everything
                ov.log = []
                snap = snapshot(sr, u)
                obslog = list(ov.log)
                if 'C08' in props:
                    for (li, meth, pth) in obslog:
                        if meth in MUTATING:
                            findings.append(make_finding('C08', '%s|observer_mutates:%s' % (key_base, meth),
                                                         'an observer issued %s(%r) to layer %d' % (meth, pth, li), sr))
                diffs, obligations = compare_tree(sr, u, snap, t_next)
                for dv, kind, detail in diffs:
                    was_removed = dv in removed
                    if kind == 'foreign':
                        pr, sym = 'C10', 'bookkeeping_visible@%s' % ('root' if dv == 'R' else 'dir')
                    elif was_removed and t_next.kind(dv) == 'absent':
                        pr, sym = 'C10', 'removed_entry_visible:%s' % kind
                    elif dv in removed:
                        # an entry that was removed and re-created must be the fresh one: wrong type, stale bytes, old children
                        pr, sym = 'C10', 'recreated_not_fresh' + ('' if kind in ('bytes', 'len') else ':' + kind)
                        if 'C09' in props or params.get('tag', 'C09') in props:
                            findings.append(make_finding(params.get('tag', 'C09'), key_base + '|%s:%s' % (what, kind), '%s after %s %s: %s %s' % (what, op, v, dv, detail), sr))
                    elif kind == 'listing' and any(u.parent(rv) == dv for rv in removed | ({v} if op.startswith('remove') and o.ok else set())):
                        # a listing of a directory from which something was removed is wrong: both properties speak about it
                        pr, sym = 'C10', 'listing_after_removal'
                        if 'C09' in props:
                            findings.append(make_finding('C09', key_base + '|%s:%s' % (what, kind), '%s after %s %s: %s %s' % (what, op, v, dv, detail), sr))
                    else:
                        pr, sym = params.get('tag', 'C09'), '%s:%s' % (what, kind)
                    if pr in props:
                        findings.append(make_finding(pr, key_base + '|' + sym, '%s after %s %s: %s %s' % (what, op, v, dv, detail), sr))
                for dv, kind, cond in obligations:
                    m = ex.check(cond, 'bytes of ' + dv)
                    if m is not None:
                        pr = 'C10' if dv in removed else 'C09'
                        if pr in props:
                            findings.append(make_finding(pr, key_base + '|%s:bytes' % ('recreated_not_fresh' if pr == 'C10' else what),
                                                         '%s after %s %s: file %s holds wrong bytes' % (what, op, v, dv), sr, m))
                if 'C03' in props:
                    check_wellformed(sr, u, snap, key_base, findings)
                if 'C05' in props:
                    consistency(sr, u, snap, t_next, key_base, findings, walk=True)
                if 'C10' in props:
                    # the marker directory must not be an entry of the overlay's own namespace
                    sr.do('join wo R %s' % hx(b'.whiteout'))
                    sr.do('exists wo')
                    if sr.last.ok and sr.last.value is True:
                        findings.append(make_finding('C10', key_base + '|bookkeeping_visible@exists', 'exists("/.whiteout") is true after %s' % op, sr))
                if 'C08' in props:
                    check_lower(key_base, op, v)
                if 'C12' in props:
                    check_errors(sr, u, key_base, findings, start, [v])
                if 'C13' in props:
                    for line_, oo in sr.outcomes[start + 1:]:
                        if oo is not None and oo.tag in ('panic', 'deadlock'):
                            findings.append(make_finding('C13', '%s|observer_%s:%s' % (key_base, oo.tag, oo.where or '?'),
                                                         'observer `%s` after %s panics: %s' % (line_, op, oo.msg), sr))
                # bookkeeping for C10
                if o.ok and op in ('remove_file', 'remove_dir', 'remove_dir_all', 'move_file', 'move_dir'):
                    removed.add(v)
                    removed.update(u.descendants(v))
                if o.ok and op in ('create_dir', 'write', 'create_dir_all'):
                    pass      # stays in `removed`: a re-created entry must be fresh
                if any('bookkeeping_visible' not in f_.key for f_ in findings[nf:]):
                    break          # the model can no longer follow the real state
                t = t_next
                prev.append(op)
            if not res.samples:
                res.samples.append({'layers': cfg_str(cfg), 'history': [' '.join(x) for x in hist],
                                    'outcomes': [o for l, o in sr.log if l.split()[0] in HIST_OPS + OBS_OPS][:4],
                                    'path_condition_size': len(ex.pc)})
            return findings
        fs, inc = explore(prog, h, res.stats)
        res.findings += fs
        res.inconclusive += inc
        res.evals += 1
    return res
