"""Public-API driver: runs VfsPath / FileSystem calls *inside the engine* (the crate's real MIR)
and normalises results.  Used by every harness and by the script runner."""
import z3

from mirsym.values import *   # noqa
from mirsym import models
from mirsym.engine import last_seg

KIND_NOT_FOUND = 'FileNotFound'


class Outcome:
    """normalised result of one API call"""
    __slots__ = ('tag', 'value', 'kind', 'path', 'context', 'msg', 'where', 'raw')

    def __init__(self, tag, value=None, kind=None, path=None, context=None, msg=None, where=None, raw=None):
        self.tag, self.value, self.kind, self.path, self.context = tag, value, kind, path, context
        self.msg, self.where, self.raw = msg, where, raw

    @property
    def ok(self):
        return self.tag == 'ok'

    def brief(self):
        if self.tag == 'ok':
            return 'Ok'
        if self.tag == 'err':
            return 'Err(%s)' % self.kind
        return self.tag.capitalize()

    def __repr__(self):
        if self.tag == 'ok':
            return 'Ok(%r)' % (self.value,)
        if self.tag == 'err':
            return 'Err(%s path=%r ctx=%r)' % (self.kind, self.path, self.context)
        return '%s(%s @ %s)' % (self.tag, self.msg, self.where)


def err_kind(e):
    """VfsError record -> kind name (IoError carries the io kind)"""
    k = e.fields[1]
    if k.variant in ('IoError', 'AsyncIoError'):
        io = k.fields[0]
        return '%s:%s' % (k.variant, io.fields[0] if type(io) is Adt else '?')
    if k.variant == 'Other':
        return 'Other'
    return k.variant


def err_other_msg(e):
    k = e.fields[1]
    if k.variant == 'Other':
        return k.fields[0]
    return None


class World:
    def __init__(self, ex):
        self.ex = ex
        self.prog = ex.prog

    # ------------------------------------------------------------- raw calls
    def F(self, name, args):
        f = self.ex.resolve(name, args)
        if f is None:
            raise Unmodelled('harness entry point not found in the dump: ' + name)
        return self.ex.run_fn(f, args)

    def guard(self, thunk):
        """run thunk, mapping Panic/Deadlock to outcomes"""
        try:
            return self.norm(thunk())
        except Panic as p:
            return Outcome('panic', msg=p.msg, where=p.where)
        except Deadlock as dl:
            return Outcome('deadlock', msg=str(dl), where='')

    def norm(self, r):
        if type(r) is Adt and r.name == 'Result':
            if r.variant == 'Ok':
                return Outcome('ok', value=r.fields[0], raw=r)
            e = r.fields[0]
            if type(e) is Adt and e.name == 'VfsError':
                return Outcome('err', kind=err_kind(e), path=e.fields[0], context=e.fields[2], raw=r)
            if type(e) is Adt and e.name == 'IoError':
                return Outcome('err', kind='io:%s' % e.fields[0], path=None, raw=r)
            return Outcome('err', kind=repr(e), raw=r)
        return Outcome('ok', value=r, raw=r)

    # ------------------------------------------------------------- constructors
    def new_mem(self):
        fs = self.F('MemoryFS::new', [])
        return self.F('path::VfsPath::new', [fs])

    def new_altroot(self, rootpath):
        fs = self.F('AltrootFS::new', [rootpath])
        return self.F('path::VfsPath::new', [fs])

    def new_overlay(self, layers):
        fs = self.F('OverlayFS::new', [ValRef(list(layers))])
        return self.F('path::VfsPath::new', [fs])

    def fs_of(self, vpath):
        """the boxed FileSystem value behind a VfsPath"""
        vfs = vpath.fields[1].cell[0]
        return vfs.fields[0].extra[0]

    # ------------------------------------------------------------- path API
    def join(self, base, s):
        if isinstance(s, (str, bytes)):
            s = lit(s)
        return self.guard(lambda: self.F('path::VfsPath::join', [ValRef(base), s]))

    def path(self, root, p):
        """root.join(p) that must succeed ('/a/b' style or relative)"""
        if p in ('', '/'):
            return root
        o = self.join(root, p.lstrip('/') if isinstance(p, str) else p)
        if not o.ok:
            raise Unmodelled('join failed in harness set-up: %r' % (o,))
        return o.value

    def as_str(self, vpath):
        return models.as_S(vpath.fields[0])

    def call(self, meth, vpath, *args):
        return self.guard(lambda: self.F('path::VfsPath::' + meth, [ValRef(vpath)] + list(args)))

    def create_dir(self, p): return self.call('create_dir', p)
    def create_dir_all(self, p): return self.call('create_dir_all', p)
    def remove_file(self, p): return self.call('remove_file', p)
    def remove_dir(self, p): return self.call('remove_dir', p)
    def remove_dir_all(self, p): return self.call('remove_dir_all', p)
    def exists(self, p): return self.call('exists', p)
    def metadata(self, p): return self.call('metadata', p)
    def is_file(self, p): return self.call('is_file', p)
    def is_dir(self, p): return self.call('is_dir', p)
    def read_to_string(self, p): return self.call('read_to_string', p)
    def copy_file(self, p, q): return self.call('copy_file', p, ValRef(q))
    def move_file(self, p, q): return self.call('move_file', p, ValRef(q))
    def copy_dir(self, p, q): return self.call('copy_dir', p, ValRef(q))
    def move_dir(self, p, q): return self.call('move_dir', p, ValRef(q))
    def set_time(self, which, p, t): return self.call('set_%s_time' % which, p, t)

    def read_dir(self, p):
        """-> Outcome whose value is the list of child VfsPath values (iterator drained)"""
        o = self.call('read_dir', p)
        if o.ok:
            try:
                o.value = models.drain(self.ex, o.value)
            except Panic as pn:
                return Outcome('panic', msg=pn.msg, where=pn.where)
        return o

    def walk_dir(self, p):
        """-> Outcome whose value is a list of Outcomes (items: Ok(VfsPath) / Err)"""
        o = self.call('walk_dir', p)
        if o.ok:
            try:
                items = models.drain(self.ex, o.value)
            except Panic as pn:
                return Outcome('panic', msg=pn.msg, where=pn.where)
            o.value = [self.norm(x) for x in items]
        return o

    # ------------------------------------------------------------- handles
    def create_file(self, p): return self.call('create_file', p)
    def append_file(self, p): return self.call('append_file', p)
    def open_file(self, p): return self.call('open_file', p)

    def h_write(self, h, data):
        return self.guard(lambda: models._dyn_call(self.ex, h, 'std::io::Write', 'write', [ValRef(S(data))]))

    def h_flush(self, h):
        return self.guard(lambda: models._dyn_call(self.ex, h, 'std::io::Write', 'flush', []))

    def h_seek(self, h, variant, off):
        return self.guard(lambda: models._dyn_call(self.ex, h, 'Seek', 'seek', [Adt('SeekFrom', variant, [off])]))

    def h_read(self, h, n):
        """read into a buffer of n bytes -> Outcome(value=(count, bytes S))"""
        buf = [S((0,) * n)]

        def go():
            r = models._dyn_call(self.ex, h, 'std::io::Read', 'read', [Ref(buf, 0)])
            return r
        o = self.guard(go)
        if o.ok:
            o.value = (o.value, buf[0])
        return o

    def h_drop(self, h):
        def go():
            self.ex.drop_value(h)
            return UNIT
        return self.guard(go)

    def write_file(self, p, data, append=False):
        """create/append + write + drop; returns the first failing Outcome or the final Ok"""
        o = self.append_file(p) if append else self.create_file(p)
        if not o.ok:
            return o
        h = o.value
        if len(data):
            w = self.h_write(h, data)
            if not w.ok:
                self.h_drop(h)
                return w
        dr = self.h_drop(h)
        if not dr.ok:
            return dr
        return Outcome('ok', value=UNIT)

    def read_all(self, p, chunk=None):
        """open_file + read to end -> Outcome(value=S)"""
        o = self.open_file(p)
        if not o.ok:
            return o
        h = o.value
        got = ()
        for _ in range(64):
            n = chunk or 4
            r = self.h_read(h, n)
            if not r.ok:
                return r
            cnt = self.ex.concretize(r.value[0], n)
            if cnt is None:
                return Outcome('panic', msg='read returned more than the buffer length', where='read')
            if cnt == 0:
                return Outcome('ok', value=S(got))
            got += tuple(r.value[1][:cnt])
        raise Bound('file longer than 64 chunks')

    def sym_time(self, tag='t'):
        return Adt('SystemTime', None, [self.ex.fresh(tag, 64)])

    def sym_bytes(self, n, tag='b'):
        return S([self.ex.fresh(tag, 8) for _ in range(n)])
