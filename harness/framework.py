"""Check driver: dump MIR from /repo's working tree, run a property's cases on all cores, replay
every counterexample natively, match known findings, write evidence, set the exit code.

exit 0: every case explored was discharged (KNOWN-FINDING lines for listed findings)
exit 1: a natively reproduced counterexample that is not a listed finding (VIOLATION line)
exit 2: inconclusive (BOUND, UNMODELLED, solver unknown, selftest mismatch, non-reproducing cex)"""
import hashlib
import json
import multiprocessing as mp
import os
import sys
import time
import traceback

from mirsym import dump
from mirsym.engine import Program, Stats, explore
from mirsym.values import *   # noqa
from . import script as scriptmod

VERIF = os.path.dirname(os.path.dirname(os.path.abspath(__file__)))
NPROC = int(os.environ.get('VERIF_NPROC', '16'))

_PROG = {}


def load_program(features=()):
    """fresh MIR dump of /repo's current working tree (regenerated on every run)"""
    key = tuple(features)
    if key in _PROG:
        return _PROG[key]
    scratch = dump.make_scratch('mir')
    try:
        t = time.time()
        if 'async-vfs' in features:
            text, src = dump.dump_mir(scratch, features, toolchain='+' + os.environ.get('VERIF_STABLE', 'stable'),
                                      extra_env={'RUSTC_BOOTSTRAP': '1'})
        else:
            text, src = dump.dump_mir(scratch, features)
        # keep the sources the spans point into (impl headers, enum definitions) in memory
        prog = Program(text, src, features)
        for f in prog.order:          # force the lazily read source lines now
            pass
        prog.dump_lines = text.count('\n')
        prog.dump_s = time.time() - t
        prog.dump_sha = hashlib.sha256(text.encode()).hexdigest()[:16]
    finally:
        dump.cleanup(scratch)
    _PROG[key] = prog
    return prog


class Finding:
    """a counterexample produced by a harness, before native confirmation"""

    def __init__(self, prop, key, detail, lines=None, outs=None, focus=None, profile='dev'):
        self.prop, self.key, self.detail = prop, key, detail
        self.lines, self.outs, self.focus, self.profile = lines, outs, focus, profile
        self.confirmed = None
        self.replay_path = None
        self.native_out = None

    def to_json(self):
        return {'property': self.prop, 'key': self.key, 'detail': self.detail, 'script': self.lines,
                'engine_expected': self.outs, 'profile': self.profile}


def make_finding(prop, key, detail, sr, model=None, profile='dev'):
    """materialise the ScriptRunner's log under a model into a concrete replay script"""
    ex = sr.ex
    if model is None:
        model = ex.any_model()
    lines, outs = sr.materialize(model)
    return Finding(prop, key, detail, lines, outs, profile=profile)


class CaseResult:
    def __init__(self):
        self.findings = []
        self.inconclusive = []
        self.stats = Stats()
        self.samples = []
        self.states = 0
        self.evals = 0
        self.extra = {}


def _worker(args):
    fn, params = args
    t0 = time.time()
    try:
        r = fn(_WPROG[0], params)
    except Exception as e:      # engine bug: inconclusive, never silent
        r = CaseResult()
        r.inconclusive.append('INTERNAL %s: %s' % (type(e).__name__, traceback.format_exc()[-1500:]))
    r.extra['wall_s'] = time.time() - t0
    return r


_LAST_RUN = [0.0]


_WPROG = [None]


# time budget of the thorough tier: a check explores its planned case families in a seeded random order until the budget of
# the check is used up; what was not run is reported as such (evidence: planned vs. run) and nothing is claimed about it
_BUDGET = {'deadline': None, 'seed': 0}
_LAST_PLAN = [0, 0]          # planned, run


def run_cases(prog, fn, cases, nproc=None):
    """run fn(prog, params) for every case on a fork pool; returns list of CaseResult"""
    nproc = nproc or NPROC
    _WPROG[0] = prog
    t0 = time.time()
    _LAST_PLAN[0] = _LAST_PLAN[1] = len(cases)
    try:
        deadline = _BUDGET['deadline']
        if deadline is None:
            if nproc <= 1 or len(cases) <= 1:
                return [_worker((fn, c)) for c in cases]
            ctx = mp.get_context('fork')
            with ctx.Pool(min(nproc, len(cases))) as pool:
                return pool.map(_worker, [(fn, c) for c in cases], chunksize=1)
        # budgeted: this family may use at most 45 % of what is left (and at least 30 s), so that later families run too
        import random as _random
        remaining = deadline - t0
        allot = max(30.0, remaining * 0.45)
        order = list(cases)
        _random.Random(_BUDGET['seed']).shuffle(order)
        out = []
        if not order:
            return out
        ctx = mp.get_context('fork')
        pool = ctx.Pool(min(nproc, len(order)))
        try:
            it = pool.imap_unordered(_worker, [(fn, c) for c in order], chunksize=1)
            while len(out) < len(order):
                left = t0 + allot - time.time()
                if left <= 0:
                    break
                try:
                    out.append(it.next(timeout=min(left, 5.0)))
                except mp.TimeoutError:
                    continue
        finally:
            pool.terminate()
            pool.join()
        _LAST_PLAN[1] = len(out)
        return out
    finally:
        _LAST_RUN[0] = time.time() - t0


# ------------------------------------------------------------------------------------------ known findings

def load_known():
    p = os.path.join(VERIF, 'known_findings.json')
    if not os.path.exists(p):
        return []
    return json.load(open(p))


def match_known(known, prop, key):
    import fnmatch
    for k in known:
        if k.get('status', 'known') != 'known':
            continue           # "fixed" entries suppress nothing
        if k['property'] == prop and fnmatch.fnmatchcase(key, k['key']):
            return k
    return None


# ------------------------------------------------------------------------------------------ replay

def replay_findings(findings, max_per_key=1):
    """run each finding's script natively (one batch per profile) and compare with the engine's
    predicted outputs"""
    by_profile = {}
    seen = {}
    for f in findings:
        c = seen.get((f.prop, f.key), 0)
        if c >= max_per_key or f.lines is None:
            continue
        seen[(f.prop, f.key)] = c + 1
        by_profile.setdefault(f.profile, []).append(f)
    n = 0
    for profile, fs in by_profile.items():
        text, offs = [], []
        for f in fs:
            offs.append(len(text))
            text += f.lines + ['reset']
        out = scriptmod.run_native('\n'.join(text), profile=profile)
        # split output per finding
        for f, off in zip(fs, offs):
            want = f.outs
            got = []
            for i in range(len(f.lines)):
                ln = out[off + i] if off + i < len(out) else '? missing'
                num, rest = ln.split(' ', 1)
                got.append('%d %s' % (int(num) - off, rest))
            f.native_out = got
            f.confirmed = (got == want)
            n += 1
    # propagate confirmation to the other findings with the same key
    conf = {(f.prop, f.key): f.confirmed for f in findings if f.confirmed is not None}
    for f in findings:
        if f.confirmed is None:
            f.confirmed = conf.get((f.prop, f.key))
    return n


def write_replay(f):
    d = os.path.join(VERIF, 'replays')
    os.makedirs(d, exist_ok=True)
    if f.lines is None:
        # a counterexample whose native outcome is a hang (e.g. lock-order deadlock): description only
        h = hashlib.sha256(f.key.encode()).hexdigest()[:12]
        p = os.path.join(d, '%s-%s.txt' % (f.prop, h))
        with open(p, 'w') as fh:
            fh.write('#! property=%s key=%s (not replayable: the native outcome is a hang)\n#! %s\n' % (f.prop, f.key, f.detail))
        f.replay_path = p
        return p
    h = hashlib.sha256(('\n'.join(f.lines) + f.key).encode()).hexdigest()[:12]
    p = os.path.join(d, '%s-%s.txt' % (f.prop, h))
    with open(p, 'w') as fh:
        fh.write('#! property=%s key=%s profile=%s\n' % (f.prop, f.key, f.profile))
        fh.write('#! %s\n' % f.detail.replace('\n', ' '))
        fh.write('\n'.join(f.lines) + '\n')
        fh.write('# --- outputs predicted by the engine (and observed natively):\n')
        for o in f.outs:
            fh.write('# %s\n' % o)
    f.replay_path = p
    return p


# ------------------------------------------------------------------------------------------ driver

class Check:
    """one property check run"""

    def __init__(self, prop, tier, seed):
        self.prop, self.tier, self.seed = prop, tier, seed
        self.t0 = time.time()
        self.results = []
        self.families = []        # description of case families explored
        self.assumptions = []
        self.bounds = {}
        self.selftest = None
        self.kani = None
        self.extra = {}
        self.level = 'model_checking'
        self.rule = ''
        if tier != 'quick':
            _BUDGET['deadline'] = self.t0 + float(os.environ.get('VERIF_THOROUGH_BUDGET_S', '420'))
            _BUDGET['seed'] = seed
        else:
            _BUDGET['deadline'] = None

    def add(self, results, family):
        self.results += results
        ent = {'family': family, 'cases': len(results), 'wall_s': round(_LAST_RUN[0], 1),
               'slowest_case_s': round(max([r.extra.get('wall_s', 0) for r in results] or [0]), 1)}
        if _LAST_PLAN[0] != _LAST_PLAN[1]:
            ent['cases_planned'] = _LAST_PLAN[0]
            ent['note'] = 'time budget of the tier reached: %d of %d planned cases run (seeded random order); nothing is claimed about the rest' % (_LAST_PLAN[1], _LAST_PLAN[0])
        self.families.append(ent)

    def finish(self, prog):
        """-> exit code; prints VIOLATION / KNOWN-FINDING lines; writes evidence"""
        prop = self.prop
        findings, incon = [], []
        stats = Stats()
        samples, states, evals = [], 0, 0
        for r in self.results:
            findings += [f for f in r.findings if f.prop == prop]
            incon += r.inconclusive
            stats.merge(r.stats)
            states += r.states
            evals += r.evals
            if len(samples) < 6 and r.samples:
                samples.append(r.samples[0])
        known = load_known()
        nrep = replay_findings(findings) if findings else 0
        code = 0
        printed = set()
        unconfirmed = [f for f in findings if f.confirmed is False]
        new_keys, known_hit = {}, {}
        for f in findings:
            if not f.confirmed:
                continue
            k = match_known(known, prop, f.key)
            if k is not None:
                known_hit.setdefault(k['key'], (k, f))
            else:
                new_keys.setdefault(f.key, f)
        for kk, (k, f) in sorted(known_hit.items()):
            print('KNOWN-FINDING: property=%s %s [%s]' % (prop, k.get('what', f.detail), f.key))
        for key, f in sorted(new_keys.items()):
            p = write_replay(f)
            print('VIOLATION property=%s replay=%s' % (prop, p))
            print('  key: %s\n  %s' % (key, f.detail))
            code = 1
        if unconfirmed:
            seenk = set()
            for f in unconfirmed:
                if f.key in seenk:
                    continue
                seenk.add(f.key)
                print('INCONCLUSIVE property=%s counterexample does not reproduce natively: %s' % (prop, f.key))
                for a, b in zip(f.outs, f.native_out or []):
                    if a != b:
                        print('   engine: %s\n   native: %s' % (a, b))
                        break
            if code == 0:
                code = 2
        if self.selftest and self.selftest.get('mismatches'):
            print('INCONCLUSIVE property=%s encoder selftest mismatch (%d lines)' % (prop, self.selftest['mismatches']))
            code = 2 if code == 0 else code
        if incon:
            kinds = {}
            for i in incon:
                kinds[i[:160]] = kinds.get(i[:160], 0) + 1
            for i, c in sorted(kinds.items())[:12]:
                print('INCONCLUSIVE property=%s %s (x%d)' % (prop, i, c))
            if code == 0:
                code = 2
        if self.kani and self.kani.get('status') == 'inconclusive' and code == 0:
            print('INCONCLUSIVE property=%s kani: %s' % (prop, self.kani.get('reason')))
            code = 2
        wall = time.time() - self.t0
        ev = {
            'property_id': prop, 'tier': self.tier, 'seed': self.seed, 'level': self.level,
            'coverage': {
                'states': max(states, 1) if not incon or states else states,
                'transitions': stats.paths,
                'traces_validated_against_impl': (self.selftest or {}).get('scripts', 0) + nrep,
                'samples': samples or [{'note': 'no sample recorded'}],
                'evaluations': max(evals, stats.paths),
                'distinct_nontrivial': states,
                'rule': self.rule,
                'exhaustive': not incon and not any('cases_planned' in f_ for f_ in self.families),
                'case_families': self.families,
                'bounds': dict(self.bounds, **({'time_budget': 'the thorough tier explores its planned families in seeded random order within %s s per check (VERIF_THOROUGH_BUDGET_S); families that were cut short say so (cases vs cases_planned)' % os.environ.get('VERIF_THOROUGH_BUDGET_S', '420')} if self.tier != 'quick' else {})),
                'engine': {
                    'mir_dump_lines': getattr(prog, 'dump_lines', None) if prog else None,
                    'mir_dump_sha256_16': getattr(prog, 'dump_sha', None) if prog else None,
                    'mir_dump_seconds': round(getattr(prog, 'dump_s', 0), 2) if prog else None,
                    'execution_paths': stats.paths,
                    'mir_statements_executed': stats.steps,
                    'solver_queries': stats.queries, 'sat': stats.sat, 'unsat': stats.unsat,
                    'branches_pruned_unsat': stats.pruned, 'decided_by_cached_model': stats.model_hits,
                    'assertions': stats.asserts, 'assertions_discharged': stats.discharged,
                    'solver_seconds': round(stats.solver_s, 2),
                    'panic_paths': stats.panics,
                    'functions_encoded': {k: len(v) for k, v in sorted(stats.fn_blocks.items())},
                    'environment_models_used': dict(sorted(stats.models_used.items(), key=lambda kv: -kv[1])[:80]),
                },
                'selftest': self.selftest,
                'kani': self.kani,
                'findings_confirmed_natively': sorted({f.key for f in findings if f.confirmed}),
                'known_findings_hit': sorted(known_hit),
                'inconclusive': sorted(set(i[:200] for i in incon))[:20],
                'extra': self.extra,
            },
            'assumptions': self.assumptions,
            'wall_s': round(wall, 2),
            'violations': len(new_keys),
        }
        os.makedirs(os.path.join(VERIF, 'evidence'), exist_ok=True)
        with open(os.path.join(VERIF, 'evidence', '%s.json' % prop), 'w') as fh:
            json.dump(ev, fh, indent=1, default=str)
        print('%s %s: paths=%d queries=%d (unsat %d) asserts=%d/%d findings=%d confirmed=%d known=%d new=%d incon=%d wall=%.1fs -> exit %d' % (
            prop, self.tier, stats.paths, stats.queries, stats.unsat, stats.discharged, stats.asserts, len(findings),
            sum(1 for f in findings if f.confirmed), len(known_hit), len(new_keys), len(incon), wall, code))
        return code


def quick_selftest(prog, seed, n, kinds=None, profile='dev'):
    from .selftest import run_selftest
    t = time.time()
    ns, nl, mism, incon, st, joined = run_selftest(prog, seed, n, kinds=kinds, profile=profile)
    res = {'scripts': ns, 'lines': nl, 'mismatches': len(mism), 'inconclusive': len(incon), 'seconds': round(time.time() - t, 1)}
    if mism:
        res['first'] = [str(x) for x in mism[0]]
    if incon:
        res['first_inconclusive'] = incon[0][:300]
        res['mismatches'] = res['mismatches'] or len(incon)
    return res
