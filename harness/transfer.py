"""C11: recursive and transfer operations, within one filesystem instance and across two.

Universe UT: source side {a, a/b, a/b/c, f} and destination side {x, x/b, x/b/c} (the images of
a, a/b, a/b/c under a -> x).  Source trees: every well-formed tree; destination side: absent,
existing (must be refused without side effects), parent missing.  Instance pairs select the
fast paths (Arc::ptr_eq) and the generic stream-copy fallback."""
import z3

from mirsym.engine import explore
from mirsym.values import *   # noqa
from .core import *           # noqa
from .framework import CaseResult, make_finding
from .script import ScriptRunner, hx
from .onestep import check_post_state, check_wellformed, check_errors, target_class


def UT():
    # 'ab' is a sibling whose name starts with the source directory's name: it must never be touched by a transfer of 'a'
    return Universe([Node('a', 'R', 'a'), Node('a_b', 'a', 'b'), Node('a_b_c', 'a_b', 'c'), Node('f', 'R', 'f', kinds=('f',)),
                     Node('ab', 'R', 'ab', kinds=('d',)), Node('ab_c', 'ab', 'c', kinds=('f',)),
                     Node('ab_a', 'ab', 'a', True),      # a destination *inside* the prefix sibling (never exists initially)
                     Node('x', 'R', 'x'), Node('x_b', 'x', 'b'), Node('x_b_c', 'x_b', 'c')], 'UT')


def UTS():
    """symbolic child names: the solver decides how the child's name relates to its directory's name"""
    return Universe([Node('a', 'R', 'a'), Node('a_b', 'a', None, symlen=2, namekey='k1'), Node('a_b_c', 'a_b', None, symlen=1, namekey='k2'),
                     Node('f', 'R', 'f', kinds=('f',)),
                     Node('x', 'R', 'x'), Node('x_b', 'x', None, symlen=2, namekey='k1'), Node('x_b_c', 'x_b', None, symlen=1, namekey='k2')], 'UTS')


UNIVERSES['UT'] = UT
UNIVERSES['UTS'] = UTS
IMAGE = {'a': 'x', 'a_b': 'x_b', 'a_b_c': 'x_b_c'}

PAIRS = ['same_mem', 'two_mem', 'mem_to_alt', 'same_alt', 'alt_to_mem', 'same_ovl', 'ovl_to_mem', 'mem_to_ovl', 'same_altalt',
         'same_phys', 'phys_to_mem', 'mem_to_phys', 'two_phys']


def make_pair(sr, pair):
    """creates source fs S and destination fs D (script vars); returns True if same instance"""
    def alt(name, under):
        sr.do('fs %s mem' % under)
        sr.do('join %s_p %s %s' % (name, under, hx(b'p')))
        sr.do('create_dir %s_p' % name)
        sr.do('fs %s alt %s_p' % (name, name))

    def ovl(name):
        sr.do('fs %s_u mem' % name)
        sr.do('fs %s_l mem' % name)
        sr.do('fs %s ovl %s_u %s_l' % (name, name, name))
    if pair == 'same_mem':
        sr.do('fs S mem'); same = True
    elif pair == 'two_mem':
        sr.do('fs S mem'); sr.do('fs D mem'); same = False
    elif pair == 'mem_to_alt':
        sr.do('fs S mem'); alt('D', 'DU'); same = False
    elif pair == 'alt_to_mem':
        alt('S', 'SU'); sr.do('fs D mem'); same = False
    elif pair == 'same_alt':
        alt('S', 'SU'); same = True
    elif pair == 'same_altalt':
        alt('M', 'MU')
        sr.do('join S_q M %s' % hx(b'q'))
        sr.do('create_dir S_q')
        sr.do('fs S alt S_q'); same = True
    elif pair == 'same_phys':
        sr.do('fs S phys'); same = True
    elif pair == 'phys_to_mem':
        sr.do('fs S phys'); sr.do('fs D mem'); same = False
    elif pair == 'mem_to_phys':
        sr.do('fs S mem'); sr.do('fs D phys'); same = False
    elif pair == 'two_phys':
        sr.do('fs S phys'); sr.do('fs D phys'); same = False
    elif pair == 'same_ovl':
        ovl('S'); same = True
    elif pair == 'ovl_to_mem':
        ovl('S'); sr.do('fs D mem'); same = False
    elif pair == 'mem_to_ovl':
        sr.do('fs S mem'); ovl('D'); same = False
    else:
        raise ValueError(pair)
    if same:
        sr.paths['D'] = sr.paths['S']
    return same


def transfer_contract(op, ts, td, src, dst, same):
    """ts: source fs tree, td: destination fs tree (the same object when same instance).
    Returns Expect-like tuple (status, new_ts, new_td, ret, why)"""
    u = ts.u
    sk, dk = ts.kind(src), td.kind(dst)
    dpar_ok = td.kind(u.parent(dst)) == 'dir'
    is_file_op = op in ('copy_file', 'move_file')
    if is_file_op and sk == 'dir' or (not is_file_op and sk == 'file'):
        return ('unspecified', None, None, None, 'source has the wrong type')
    if sk == 'absent':
        return ('err', ts, td, None, 'source does not exist')
    if dk != 'absent':
        return ('err', ts, td, None, 'destination exists')
    if not dpar_ok:
        return ('err', ts, td, None, 'destination parent is not an existing directory')
    nts = ts.copy()
    ntd = nts if same else td.copy()
    if is_file_op:
        ntd.n[dst] = ('f', ts.content(src))
        if op == 'move_file':
            del nts.n[src]
        return ('ok', nts, ntd, None, '')
    # directory transfer: dst must be the image position of src
    sub = [src] + [d for d in u.descendants(src) if d in ts.n]
    shift = {}
    s_, d_ = src, dst
    # map src subtree onto dst subtree by relative position
    def img(v):
        rel = []
        while v != src:
            rel.append(u.by_var[v].namekey if u.by_var[v].symlen is not None else u.by_var[v].name)
            v = u.parent(v)
        w = dst
        for nm in reversed(rel):
            cands = [c for c in u.children(w) if (u.by_var[c].namekey if u.by_var[c].symlen is not None else u.by_var[c].name) == nm]
            if not cands:
                return None
            w = cands[0]
        return w
    for v in sub:
        w = img(v)
        if w is None:
            return ('unspecified', None, None, None, 'image of %s is outside the universe' % v)
        ntd.n[w] = ts.n[v]
    if op == 'move_dir':
        for v in sub:
            nts.n.pop(v, None)
    return ('ok', nts, ntd, len(sub) - 1, '')


def run_transfer_case(prog, params):
    res = CaseResult()
    res.states = 1
    u = UNIVERSES[params.get('universe', 'UT')]()
    pair, shape, dshape = params['pair'], params['shape'], params['dshape']
    props = set(params['props'])
    for (op, src, dst) in params['transfers']:
        def h(ex, op=op, src=src, dst=dst):
            findings = []
            sr = ScriptRunner(ex)
            sr.outcomes = []
            _do = sr.do

            def do(line):
                r = _do(line)
                sr.outcomes.append((line, sr.last))
                return r
            sr.do = do
            if params.get('copy_buf'):
                ex.hooks['copy_buf'] = params['copy_buf']
            same = make_pair(sr, pair)
            st = Setup(sr, u)
            st.define_paths('S', 'S_')
            ts = st.build(tuple((v, k) for v, k in shape), prefix='S_', lens=[2, 0, 3, 1], tag='s')
            if same:
                st.define_paths('S', 'D_')
                # destination-side entries live in the same tree
                td = ts
                for v, k in dshape:
                    if k == 'd':
                        sr.do('create_dir S_%s' % v); ts.n[v] = 'd'
                    else:
                        sr.syms['dd_' + v] = sym_content(ex, 1, 'dd_' + v)
                        sr.do('write S_%s $dd_%s' % (v, v)); ts.n[v] = ('f', sr.syms['dd_' + v])
            else:
                st.define_paths('D', 'D_')
                td = st.build(tuple((v, k) for v, k in dshape), prefix='D_', lens=[1], tag='d')
            key_base = '%s|%s|src=%s|dst=%s' % (pair, op, target_class(ts, src), target_class(td, dst))
            start = len(sr.outcomes)
            out = sr.do('%s S_%s D_%s' % (op, src, dst))
            o = sr.last
            status, nts, ntd, ret, why = transfer_contract(op, ts, td, src, dst, same)
            if o.tag in ('panic', 'deadlock'):
                findings.append(make_finding('C13', key_base + '|%s:%s' % (o.tag, o.where or '?'), '%s panics: %s' % (op, o.msg), sr))
                return findings
            ctag = 'C11' if 'C11' in props else ('C01' if 'C01' in props else None)
            if ctag and status != 'unspecified':
                if status == 'ok' and not o.ok:
                    findings.append(make_finding(ctag, key_base + '|unexpected_err:%s' % o.kind, '%s %s -> %s must succeed but returned %s' % (op, src, dst, o.brief()), sr))
                    return findings
                if status == 'err' and o.ok:
                    findings.append(make_finding(ctag, key_base + '|unexpected_ok', '%s %s -> %s succeeded although %s' % (op, src, dst, why), sr))
                    nts, ntd = None, None
                if status == 'ok' and op == 'copy_dir' and o.value != ret:
                    findings.append(make_finding(ctag, key_base + '|wrong_count', 'copy_dir returned %s, %d entries were to be copied' % (o.value, ret), sr))
                # the statement demands "no side effects" for a refused existing destination; other failures
                # (missing source, missing destination parent) must leave the source untouched
                strict = status == 'ok' or why == 'destination exists'
                if nts is not None and (strict or not same):
                    what = 'post_state' if status == 'ok' else 'changed_on_failure'
                    nf = len(findings)
                    snap_s = check_post_state(sr, u, nts, key_base + '|source_fs', findings, what, prefix='S_', prop=ctag)
                    if not same and strict:
                        snap_d = check_post_state(sr, u, ntd, key_base + '|dest_fs', findings, what, prefix='D_', prop=ctag)
                    # entries outside the universe (overlay bookkeeping) are C10's subject, not C11's
                    findings[nf:] = [f_ for f_ in findings[nf:] if ':foreign' not in f_.key]
            if 'C03' in props:
                snap = snapshot(sr, u, 'S_', with_content=False, with_listing=False)
                check_wellformed(sr, u, snap, key_base, findings)
            if 'C05' in props:
                from .onestep import consistency
                snap5 = snapshot(sr, u, 'S_')
                consistency(sr, u, snap5, None, key_base, findings, prefix='S_', walk=True)
            if 'C12' in props:
                check_errors(sr, u, key_base, findings, start, [src, dst])
                # a transfer whose source is missing from an existing directory reports not-found, on every backend
                if status == 'err' and why == 'source does not exist' and o.tag == 'err' and ts.kind(u.parent(src)) == 'dir' \
                        and td.kind(dst) == 'absent' and td.kind(u.parent(dst)) == 'dir' \
                        and not str(o.kind).startswith('FileNotFound') and 'NotFound' not in str(o.kind):
                    findings.append(make_finding('C12', key_base + '|misclassified:%s' % o.kind,
                                                 '%s of a source that is missing from an existing directory reports %s, not not-found' % (op, o.kind), sr))
            if not res.samples:
                res.samples.append({'pair': pair, 'source_tree': shape_str(shape), 'dest_side': shape_str(dshape), 'call': '%s %s %s' % (op, src, dst),
                                    'outcome': out, 'contract': status})
            return findings
        fs, inc = explore(prog, h, res.stats)
        res.findings += fs
        res.inconclusive += inc
        res.evals += 1
    return res


def transfer_cases(pairs, props_, tier, seed, copy_bufs=(2,), universe='UT'):
    import random
    u = UNIVERSES[universe]()
    src_nodes = ['a', 'a_b', 'a_b_c', 'f']
    shs = []
    for sh in shapes(u):
        d = dict(sh)
        if any(v in d for v in ('x', 'x_b', 'x_b_c')):
            continue
        shs.append(sh)
    dshapes = [(), (('x', 'd'),), (('x', 'f'),), (('x', 'd'), ('x_b', 'd')), (('x', 'd'), ('x_b', 'f'))]
    transfers = []
    for op in ('copy_file', 'move_file'):
        for src in ('f', 'a_b', 'a_b_c', 'a'):
            for dst in ('x', 'x_b'):
                transfers.append((op, src, dst))
    for op in ('copy_dir', 'move_dir'):
        transfers += [(op, 'a', 'x'), (op, 'a_b', 'x_b'), (op, 'f', 'x'), (op, 'a_b_c', 'x_b_c')]
        if universe == 'UT':
            transfers.append((op, 'a', 'ab_a'))
    # between two instances the destination may carry the *same path text* as the source (or lie textually below it)
    same_text = [('copy_dir', 'a', 'a'), ('move_dir', 'a', 'a'), ('copy_file', 'f', 'f'), ('move_file', 'a_b', 'a_b'), ('copy_dir', 'a_b', 'a_b')]
    cases = []
    rng = random.Random(seed)
    for pair in pairs:
        two = not pair.startswith('same_')
        for cb in copy_bufs:
            for sh in shs:
                for ds in dshapes:
                    cases.append({'pair': pair, 'shape': sh, 'dshape': ds, 'transfers': transfers + (same_text if two and not ds else []), 'props': props_, 'copy_buf': cb, 'universe': universe})
    return cases
