"""C07: AltrootFS is an exact and confined re-rooting.

(a) kernel: AltrootFS::path(q) == P + q for symbolic canonical q (and symbolic canonical P);
(b) exactness: the altroot view equals the subtree below P observed through the underlying
    filesystem, after every operation from every well-formed state;
(c) confinement: entries of the underlying filesystem outside P are bit-identical before and
    after, and every call dispatched to the underlying filesystem names P or a path below P —
    including calls made through hostile join strings ('..', absolute segments)."""
import z3

from mirsym.engine import explore
from mirsym.values import *   # noqa
from .core import *           # noqa
from .framework import CaseResult, make_finding, Finding
from .script import ScriptRunner, hx
from .api import World
from . import onestep
from .onestep import target_class, op_line, check_outcome, check_post_state
from . import c06

HOSTILE = ['../outside', '/../outside', 'a/../../outside', '../../..', '/outside', './../outside', '..', 'x/../..',
           '//outside', '///outside', '/./outside', '//../outside', 'a//../../outside',
           '..\\outside', '..\\..\\outside', 'a\\..\\..\\outside', '.\\..\\outside',
           './ ../outside', '/ ../outside', 'x/../ ../outside', ' ../outside', '.. /outside', './ ../ ../outside']


def run_kernel_case(prog, params):
    """AltrootFS::path on symbolic strings"""
    res = CaseResult()
    res.states = 1
    lp, lq = params['lp'], params['lq']

    def h(ex):
        out = []
        w = World(ex)
        root = w.new_mem()
        P = S([ex.fresh('P', 8) for _ in range(lp)])
        q = S([ex.fresh('q', 8) for _ in range(lq)])
        if lp:
            ex.assume(c06.alphabet(ex, P)); ex.assume(c06.canonical(P))
        if lq:
            ex.assume(c06.alphabet(ex, q)); ex.assume(c06.canonical(q))
        proot = Adt('VfsPath', None, [P, root.fields[1]])
        alt = w.F('AltrootFS::new', [proot])
        o = w.guard(lambda: w.F('AltrootFS::path', [ValRef(alt), q]))

        def fnd(key, detail, model=None):
            m = model or ex.any_model()
            pb, qb = c06.model_bytes(m, P), c06.model_bytes(m, q)
            f = Finding('C07', key, detail + ' [P=%r q=%r]' % (pb, qb),
                        ['fs U mem', 'join p U %s' % hx(pb), 'create_dir_all p', 'fs R alt p', 'join t R %s' % hx(qb), 'write t 41',
                         'join chk U %s' % hx(pb + qb), 'read chk 4', 'exists chk'], None)
            return f
        if not o.ok:
            out.append(fnd('kernel|path_fails:%s' % o.tag, 'AltrootFS::path fails on a canonical path: %r' % (o,)))
            return out
        got = w.as_str(o.value)
        exp = tuple(P) + tuple(q)
        if len(got) != len(exp):
            out.append(fnd('kernel|wrong_inner_path', 'inner path has length %d, P + q has %d' % (len(got), len(exp))))
            return out
        m = ex.check(seq_eq(got, exp), 'path = P + q')
        if m is not None:
            out.append(fnd('kernel|wrong_inner_path', 'inner path differs from P + q', m))
        if o.value.fields[1] is not proot.fields[1]:
            out.append(fnd('kernel|other_fs', 'inner path belongs to another filesystem'))
        if not res.samples:
            mdl = ex.any_model()
            res.samples.append({'P': repr(c06.model_bytes(mdl, P)), 'q': repr(c06.model_bytes(mdl, q)), 'inner': repr(c06.model_bytes(mdl, got))})
        return out
    fs, inc = explore(prog, h, res.stats)
    for f in fs:
        c06.concretize_expected(prog, f)
    res.findings += fs
    res.inconclusive += inc
    res.evals = res.stats.paths
    return res


def run_confine_case(prog, params):
    """params: P ('/a' ...), shape over U5 (altroot view), ops, missing (P not created)"""
    res = CaseResult()
    res.states = 1
    u = UNIVERSES[params['universe']]()
    P = params['P']
    shape = params['shape']
    missing = params.get('missing', False)
    targets = params.get('targets') or u.vars
    hostile = params.get('hostile', False)
    for op in params['ops']:
        tlist = (['h%d' % i for i in range(len(HOSTILE))] if hostile else targets)
        for v in tlist:
            def h(ex, op=op, v=v):
                findings = []
                sr = ScriptRunner(ex)
                w = sr.w
                sr.do('fs U mem')
                comps = [c for c in P.split('/') if c]
                # entries beside and above P
                sr.syms['o1'] = sym_content(ex, 1, 'o1')
                sr.do('join uOut U %s' % hx(b'outside'))
                sr.do('write uOut $o1')
                # with P = the underlying root nothing is outside P: /outside is then an ordinary entry of the altroot view
                outside = [('uOut', sr.syms['o1'])] if comps else []
                if len(comps) >= 1:
                    sr.do('join uA U %s' % hx(comps[0].encode()))
                    if not missing or len(comps) > 1:
                        sr.do('create_dir uA')
                if len(comps) >= 2:
                    sr.syms['o2'] = sym_content(ex, 2, 'o2')
                    sr.do('join uSib uA %s' % hx(b'sib'))
                    sr.do('write uSib $o2')
                    outside.append(('uSib', sr.syms['o2']))
                    sr.do('join uP uA %s' % hx(comps[1].encode()))
                    if not missing:
                        sr.do('create_dir uP')
                elif len(comps) == 1:
                    sr.do('join uP U %s' % hx(comps[0].encode()))
                else:
                    sr.do('join uP U -')
                sr.do('fs R alt uP')
                st = Setup(sr, u)
                st.define_paths('R')
                st.define_paths('uP', 'u_')      # the same universe seen through the underlying filesystem
                t = st.build(shape, lens=[1, 0, 2]) if not missing else Tree(u)
                for i, hs in enumerate(HOSTILE):
                    if hostile:
                        sr.do('join h%d R %s' % (i, hx(hs.encode())))
                under_fs = w.fs_of(sr.paths['U'])
                calls = []

                def on_call(ex_, callee, args):
                    if callee.startswith('<dyn FileSystem as FileSystem>::') and args and deref(args[0]) is under_fs:
                        calls.append((callee.rsplit('::', 1)[1], [S(deref(a)) for a in args[1:] if isinstance(deref(a), tuple)]))
                    return None
                ex.hooks['call'] = on_call
                key_base = 'alt:%s%s|%s|%s' % (P or '/', '(missing)' if missing else '', op,
                                               ('hostile:' + HOSTILE[int(v[1:])]) if hostile else target_class(t, v))
                line, data = op_line(op, v, sr, ex, 1)
                out = sr.do(line)
                o = sr.last
                ex.hooks.pop('call', None)
                if o.tag in ('panic', 'deadlock'):
                    findings.append(make_finding('C13', key_base + '|%s:%s' % (o.tag, o.where), '%s panics: %s' % (op, o.msg), sr))
                    return findings
                # (c) every path handed to the underlying filesystem is P or below P
                Pb = S(P.encode()) if P not in ('', '/') else S()
                for meth, pargs in calls:
                    for pa in pargs:
                        inside = len(pa) >= len(Pb) and ex.branch(seq_eq(pa[:len(Pb)], Pb)) and \
                            (len(pa) == len(Pb) or ex.branch(beq(pa[len(Pb)], 0x2f)))
                        # exists/metadata of an ancestor of P is what the same call on P of the underlying
                        # filesystem does (VfsPath::get_parent) and reveals no content: allowed
                        anc = meth in ('exists', 'metadata') and len(pa) < len(Pb) and ex.branch(seq_eq(pa, Pb[:len(pa)])) and \
                            ex.branch(beq(Pb[len(pa)], 0x2f))
                        if not inside and not anc:
                            findings.append(make_finding('C07', key_base + '|call_outside_root:%s' % meth,
                                                         'the underlying filesystem received %s(%r), which is not below %r' % (meth, pa, P), sr))
                # (c) entries outside P are untouched
                for var, content in outside:
                    sr.do('read %s 3' % var)
                    r = sr.last
                    if not r.ok or len(r.value) != len(content) or ex.check(seq_eq(r.value, content), 'outside bytes') is not None:
                        findings.append(make_finding('C07', key_base + '|outside_changed', 'entry %s outside the altroot directory changed: %r' % (var, r), sr))
                sr.do('read_dir U')
                r = sr.last
                allowed = {b'/outside'} | ({('/' + comps[0]).encode()} if comps else set())
                if not comps:
                    allowed |= {('/' + n.name).encode() for n in u.nodes if n.parent == 'R'} | {b'/outside'}
                if r.ok:
                    for nm in r.value:
                        if S(nm).is_concrete() and bytes(nm) not in allowed:
                            findings.append(make_finding('C07', key_base + '|created_outside', 'the underlying root now lists %r' % (nm,), sr))
                if missing:
                    for var in ['uA'] if len(comps) == 1 else ['uP']:
                        sr.do('exists %s' % var)
                        if sr.last.ok and sr.last.value is True:
                            findings.append(make_finding('C07', key_base + '|altroot_dir_materialised',
                                                         'an operation through the altroot created the (missing) altroot directory chain in the underlying filesystem', sr))
                # (b') removing the altroot's own root has the effect of removing P in the underlying filesystem
                if not missing and not hostile and v == 'R' and op in ('remove_dir', 'remove_dir_all') and comps:
                    sr.do('exists uP')
                    if sr.last.ok and o.ok and sr.last.value is True:
                        findings.append(make_finding('C07', key_base + '|root_removal_reported_but_P_remains',
                                                     '%s on the altroot root returned Ok, but P still exists in the underlying filesystem' % op, sr))
                    if sr.last.ok and not o.ok and sr.last.value is False:
                        findings.append(make_finding('C07', key_base + '|root_removal_failed_but_P_gone',
                                                     '%s on the altroot root failed, but P no longer exists in the underlying filesystem' % op, sr))
                # (b) the altroot view equals the subtree below P
                if not missing:
                    s_alt = snapshot(sr, u)
                    s_und = snapshot(sr, u, prefix='u_')
                    for var in u.vars:
                        a, b = s_alt[var], s_und[var]
                        ka, kb = observed_kind(a), observed_kind(b)
                        if ka != kb:
                            findings.append(make_finding('C07', key_base + '|view_differs:kind', '%s: altroot view %s, underlying %s' % (var, ka, kb), sr))
                        elif ka == 'file' and not is_err(a.content) and not is_err(b.content):
                            if len(a.content) != len(b.content) or ex.check(seq_eq(a.content, b.content), 'view bytes') is not None:
                                findings.append(make_finding('C07', key_base + '|view_differs:bytes', '%s: bytes differ between altroot view and underlying' % var, sr))
                if not res.samples:
                    res.samples.append({'P': P, 'state': shape_str(shape), 'call': line, 'outcome': out, 'underlying_calls': [c[0] for c in calls][:8]})
                return findings
            fs, inc = explore(prog, h, res.stats)
            res.findings += fs
            res.inconclusive += inc
            res.evals += 1
    return res


def run_phys_kernel_case(prog, params):
    """PhysicalFS::get_path(q) for symbolic canonical q resolves (lexically, as the OS does without
    symlinks) to root + q: never outside the root directory"""
    from mirsym import osm as osmodel
    res = CaseResult()
    res.states = 1
    lq = params['lq']

    def h(ex):
        out = []
        w = World(ex)
        q = S([ex.fresh('q', 8) for _ in range(lq)])
        if lq:
            ex.assume(c06.alphabet(ex, q)); ex.assume(c06.canonical(q))
        fs = w.F('PhysicalFS::new', [S(b'/jail/root')])
        o = w.guard(lambda: w.F('PhysicalFS::get_path', [ValRef(fs), q]))

        def fnd(key, detail, model=None):
            m = model or ex.any_model()
            qb = c06.model_bytes(m, q)
            f = Finding('C07', key, detail + ' [q=%r]' % qb,
                        ['fs R phys', 'join t R %s' % hx(qb), 'create_dir_all t', 'exists t', 'read_dir R', 'walk_dir R'], None)
            return f
        if not o.ok:
            out.append(fnd('phys_kernel|get_path_%s' % o.tag, 'PhysicalFS::get_path fails/panics: %r' % (o,)))
            return out
        om = osmodel.osm(ex)
        got = om.comps(o.value)
        want = (tuple(b'jail'), tuple(b'root')) + om.comps(q)
        same = len(got) == len(want) and all(len(a) == len(b) for a, b in zip(got, want))
        cond = zand([seq_eq(a, b) for a, b in zip(got, want)]) if same else False
        m = ex.check(cond, 'get_path stays below the root')
        if m is not None:
            out.append(fnd('phys_kernel|path_leaves_root', 'the OS path computed for a canonical path is not root + path', m if cond is not False else None))
        if not res.samples:
            mdl = ex.any_model()
            res.samples.append({'q': repr(c06.model_bytes(mdl, q)), 'os_path': repr(c06.model_bytes(mdl, models_as_S(o.value)))})
        return out
    fs, inc = explore(prog, h, res.stats)
    for f in fs:
        c06.concretize_expected(prog, f)
    res.findings += fs
    res.inconclusive += inc
    res.evals = res.stats.paths
    return res


def models_as_S(v):
    from mirsym.models import as_S
    return as_S(v)
