"""C19: timestamps round-trip and are independent of content (MemoryFS and adapters over it)."""
import z3

from mirsym.engine import explore
from mirsym.values import *   # noqa
from .core import *           # noqa
from .framework import CaseResult, make_finding
from .script import ScriptRunner, hx
from .handles import config_lines

FIELDS = ['c', 'm', 'a']
NAMES = {'c': 'creation', 'm': 'modification', 'a': 'access'}


def opt_eq(a, b):
    """equality of two Option<SystemTime> values as a solver term"""
    if a.variant != b.variant:
        return False
    if a.variant == 'None':
        return True
    x, y = a.fields[0].fields[0], b.fields[0].fields[0]
    if type(x) is int and type(y) is int:
        return x == y
    return bv(x, 64) == bv(y, 64)


def run_times_case(prog, params):
    res = CaseResult()
    res.states = 1
    cfg, kind = params['cfg'], params['kind']

    def h(ex):
        findings = []
        sr = ScriptRunner(ex)
        both = cfg == 'ovl_both'                  # the entry exists in the upper AND in the lower layer (created in each directly)
        target = config_lines(sr, 'ovl_lower' if both else cfg)            # defines f (and lf for ovl_lower)
        content = sym_content(ex, 2, 'content')
        sr.syms['content'] = content
        if kind == 'file':
            r = sr.do('write %s $content' % target)
        elif kind == 'root':
            # the filesystem's own root: never created through the API (MemoryFS keeps it without any stamp)
            r = sr.do('join f R -')
            if r.startswith('ok'):
                r = 'ok'
        else:
            r = sr.do('create_dir %s' % target)
        if r != 'ok':
            raise Unmodelled('times set-up: ' + r)
        if both:
            sr.do('join uf L0 %s' % hx(b'f'))
            r = sr.do('write uf $content' if kind == 'file' else 'create_dir uf')
            if r != 'ok':
                raise Unmodelled('times set-up (upper copy): ' + r)
        key0 = '%s|%s' % (cfg, kind)
        sr.do('times f')
        if not sr.last.ok:
            findings.append(make_finding('C19', key0 + '|metadata_fails', 'metadata of an existing entry fails: %r' % (sr.last,), sr))
            return findings
        cur = dict(sr.last.value)
        nsteps = params.get('steps', 2)
        for step in range(nsteps):
            which = FIELDS[ex.choose(3, 'field')]
            name = 't%d' % step
            sr.syms[name] = ex.fresh(name, 64)
            tv = sr.syms[name]
            ex.assume(z3.ULT(tv, z3.BitVecVal(1 << 62, 64)))     # representable as a SystemTime (i64 seconds)
            sr.do('set_time f %s $%s' % (which, name))
            o = sr.last
            key = '%s|set_%s%s' % (key0, NAMES[which], '' if step == 0 else '|second')
            if o.tag in ('panic', 'deadlock'):
                findings.append(make_finding('C13', key + '|panic:%s' % o.where, 'setter panics: %s' % o.msg, sr))
                return findings
            sr.do('times f')
            if not sr.last.ok:
                findings.append(make_finding('C19', key + '|metadata_fails_after', 'metadata fails after a setter: %r' % (sr.last,), sr))
                return findings
            post = dict(sr.last.value)
            if o.ok:
                want = dict(cur)
                want[which] = Some(Adt('SystemTime', None, [tv]))
            else:
                if 'phys' in cfg and which == 'c' and o.kind == 'NotSupported':
                    pass         # PhysicalFS does not implement set_creation_time: trait default, nothing may change
                elif cfg not in ('ovl_lower',) and o.kind != 'NotSupported':
                    findings.append(make_finding('C19', key + '|setter_fails:%s' % o.kind, 'set_%s_time on an existing %s fails with %s' % (NAMES[which], kind, o.kind), sr))
                    return findings
                want = cur
            for fld in FIELDS:
                m = ex.check(opt_eq(post[fld], want[fld]), 'time field')
                if m is not None:
                    if fld == which and o.ok:
                        findings.append(make_finding('C19', key + '|not_round_tripped', 'metadata does not report the %s time that was set' % NAMES[fld], sr, m))
                    else:
                        findings.append(make_finding('C19', key + '|other_field_changed:%s' % NAMES[fld],
                                                     'set_%s_time %s changed the %s time' % (NAMES[which], 'succeeded and' if o.ok else 'failed but', NAMES[fld]), sr, m))
                    return findings
            cur = want
            # length, type and bytes are untouched
            sr.do('metadata f')
            mo = sr.last
            exp_meta = ('file', 2) if kind == 'file' else ('dir', 0)
            if not mo.ok or mo.value[:2] != exp_meta:
                findings.append(make_finding('C19', key + '|metadata_changed', 'setter changed type/length: %r' % (mo.value[:2] if mo.ok else mo,), sr))
                return findings
            if kind == 'file' and step == nsteps - 1:
                sr.do('read f 3')
                ro = sr.last
                if not ro.ok or len(ro.value) != 2 or ex.check(seq_eq(ro.value, content), 'bytes after setter') is not None:
                    findings.append(make_finding('C19', key + '|content_changed', 'setter changed the bytes', sr))
                    return findings
                # open_file stamps the access time: refresh the expectation for that field only
                sr.do('times f')
                if sr.last.ok:
                    cur['a'] = sr.last.value['a']
        if kind == 'file' and params.get('append', True) and cfg != 'ovl_lower':
            # (after a copy-up the overlay serves the upper copy, whose times are its own: not compared)
            # an append session preserves the creation time (and on MemoryFS the access time)
            sr.syms['more'] = sym_content(ex, 1, 'more')
            r = sr.do('append f $more')
            if r == 'ok':
                sr.do('times f')
                if sr.last.ok:
                    post = dict(sr.last.value)
                    m = ex.check(opt_eq(post['c'], cur['c']), 'created preserved')
                    if m is not None:
                        findings.append(make_finding('C19', key0 + '|append_changes_creation_time', 'appending to a file changed its creation time', sr, m))
            # two append sessions that overlap (second opened before the first is closed; closed one after the other), and a
            # session that is flushed before it is closed: the creation time is still the file's own
            if r == 'ok' and params.get('overlap', True):
                for variant in ('two_handles', 'flush_then_close'):
                    sr.syms['m1'] = sym_content(ex, 1, 'm1_' + variant)
                    sr.syms['m2'] = sym_content(ex, 1, 'm2_' + variant)
                    if sr.do('hopen A f append') != 'ok':
                        break
                    sr.do('hwrite A $m1')
                    if variant == 'two_handles':
                        if sr.do('hopen B f append') != 'ok':
                            sr.do('hdrop A')
                            break
                        sr.do('hwrite B $m2')
                        sr.do('hdrop A')
                        sr.do('hdrop B')
                    else:
                        sr.do('hflush A')
                        sr.do('append f $m2')
                        sr.do('hdrop A')
                    if any(o_ in ('panic', 'deadlock') for _l, o_ in sr.log[-6:]):
                        findings.append(make_finding('C13', key0 + '|overlapping_append|panic', 'overlapping append sessions panic', sr))
                        return findings
                    sr.do('times f')
                    if sr.last.ok:
                        post = dict(sr.last.value)
                        m = ex.check(opt_eq(post['c'], cur['c']), 'created preserved (overlap)')
                        if m is not None:
                            findings.append(make_finding('C19', key0 + '|append_changes_creation_time|' + variant,
                                                         'overlapping append sessions changed the creation time', sr, m))
                            return findings
        if not res.samples:
            res.samples.append({'config': cfg, 'entry': kind, 'script': [l for l, _ in sr.log if l.split()[0] in ('set_time', 'times', 'append')]})
        return findings
    fs, inc = explore(prog, h, res.stats)
    res.findings += fs
    res.inconclusive += inc
    res.evals = res.stats.paths
    return res
