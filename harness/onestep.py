"""One inductive step from every well-formed state (DESIGN §4.5): MemoryFS and adapters over it.

For each tree shape over the universe (built through the public API inside the engine, file
contents symbolic), each operation and each target path: run the call on the real MIR, compare
the outcome with the contract and the full observable post-state with the expected tree.  The
checks for C01 (contract), C03 (well-formedness), C05 (observer consistency), C12 (error paths
and classes) and C13 (panics) are evaluated on the same runs and tagged by property."""
import z3

from mirsym.engine import explore, Stats
from mirsym.values import *   # noqa
from .core import *           # noqa
from .framework import CaseResult, make_finding
from .script import ScriptRunner, hx

PLACEHOLDER = b'PATH NOT FILLED BY VFS LAYER'

PRIMS = ['create_dir', 'write', 'append', 'remove_file', 'remove_dir']
OBSERVERS = ['read', 'metadata', 'exists', 'read_dir', 'is_file', 'is_dir', 'read_to_string']
COMPOSITES = ['create_dir_all', 'remove_dir_all']


def target_class(t, v):
    c = t.cls(v)
    if c == 'absent':
        p = t.kind(t.u.parent(v))
        return 'absent(parent=%s)' % p
    return c


def build_config(sr, cfg, u):
    """creates the filesystem under test as script var R (+ universe path vars). Returns context dict"""
    st = Setup(sr, u)
    ctx = {'cfg': cfg}
    if cfg == 'mem':
        sr.do('fs R mem')
    elif cfg.startswith('alt:'):
        # altroot at P inside a MemoryFS that also holds entries beside and above P
        P = cfg[4:]
        sr.do('fs U mem')
        if P not in ('', '/'):
            sr.do('join uP U %s' % hx(P.lstrip('/').encode()))
            sr.do('create_dir_all uP')
            sr.do('join uS U %s' % hx(b'outside'))
            sr.syms['outside'] = sym_content(sr.ex, 1, 'outside')
            sr.do('write uS $outside')
        else:
            sr.do('join uP U -')          # P is the underlying root: nothing lies outside
        sr.do('fs R alt uP')
    elif cfg == 'altalt':
        sr.do('fs U mem')
        sr.do('join uP U %s' % hx(b'p'))
        sr.do('create_dir uP')
        sr.do('fs M alt uP')
        sr.do('join mQ M %s' % hx(b'q'))
        sr.do('create_dir mQ')
        sr.do('fs R alt mQ')
    else:
        raise ValueError(cfg)
    st.define_paths('R')
    ctx['setup'] = st
    return ctx


def op_line(op, v, sr, ex, dlen):
    if op in ('write', 'append'):
        sr.syms['wdata'] = sym_content(ex, dlen, 'wdata')
        return '%s %s $wdata' % (op, v), sr.syms['wdata']
    if op == 'read':
        return 'read %s 3' % v, None
    if op.startswith('set_time_'):
        sr.syms['tval'] = ex.fresh('tval', 64)
        ex.assume(z3.ULT(sr.syms['tval'], z3.BitVecVal(1 << 62, 64)))     # representable as a SystemTime (i64 seconds)
        return 'set_time %s %s $tval' % (v, op[-1]), None
    return '%s %s' % (op, v), None


def check_outcome(prop_tags, out, exp, op, key_base, findings, sr, t_pre, v, prop='C01', prefix=''):
    """C01: status / error class / return value against the contract. Returns True if the call
    should have changed the tree as exp.tree"""
    ex = sr.ex
    o = sr.last
    if exp.status in ('unspecified', 'either'):
        return None
    if o.tag in ('panic', 'deadlock'):
        return None          # reported under C13
    if exp.status in ('ok', 'ok_or_utf8'):
        if not o.ok:
            if exp.status == 'ok_or_utf8' and o.kind.startswith('IoError'):
                return False
            findings.append(make_finding(prop, key_base + '|unexpected_err:%s' % o.kind,
                                         '%s on %s (%s) must succeed but returned %s' % (op, v, target_class(t_pre, v), o.brief()), sr))
            return False
        # return value
        if exp.ret is not None and op in ('read', 'read_to_string'):
            got = o.value
            if len(got) != len(exp.ret):
                findings.append(make_finding(prop, key_base + '|wrong_bytes', '%s returned %d bytes, expected %d' % (op, len(got), len(exp.ret)), sr))
            else:
                m = ex.check(seq_eq(got, exp.ret), 'read bytes')
                if m is not None:
                    findings.append(make_finding(prop, key_base + '|wrong_bytes', '%s returned wrong bytes' % op, sr, m))
        elif op == 'metadata':
            if o.value[:2] != exp.ret:
                findings.append(make_finding(prop, key_base + '|wrong_metadata', 'metadata %r, expected %r' % (o.value[:2], exp.ret), sr))
        elif op in ('exists', 'is_file', 'is_dir'):
            if o.value is not exp.ret:
                findings.append(make_finding(prop, key_base + '|wrong_answer', '%s = %r, expected %r' % (op, o.value, exp.ret), sr))
        elif op == 'read_dir':
            cands = [(c, sr.w.as_str(sr.paths[prefix + c])) for c in t_pre.u.children(v)]
            matched, foreign = match_names(ex, o.value, cands)
            if sorted(matched) != sorted(exp.ret) or foreign:
                findings.append(make_finding(prop, key_base + '|wrong_listing', 'read_dir lists %s + %r, expected %s' % (sorted(matched), foreign, sorted(exp.ret)), sr))
        return True
    # must fail
    if o.ok:
        findings.append(make_finding(prop, key_base + '|unexpected_ok',
                                     '%s on %s (%s) succeeded although %s' % (op, v, target_class(t_pre, v), exp.why), sr))
        return None
    if exp.errclass is not None and o.kind != exp.errclass:
        findings.append(make_finding(prop, key_base + '|wrong_kind:%s' % o.kind.split(':')[0],
                                     '%s on %s (%s): %s must be reported as %s, got %s' % (op, v, target_class(t_pre, v), exp.why, exp.errclass, o.kind), sr))
    return False


def check_post_state(sr, u, exp_tree, key_base, findings, what, prefix='', prop='C01'):
    ex = sr.ex
    snap = snapshot(sr, u, prefix)
    diffs, obligations = compare_tree(sr, u, snap, exp_tree, prefix)
    for v, kind, detail in diffs:
        findings.append(make_finding(prop, key_base + '|%s:%s@%s' % (what, kind, rel_role(u, v, key_base)),
                                     '%s: %s %s' % (what, v, detail), sr))
    for v, kind, cond in obligations:
        m = ex.check(cond, 'bytes of ' + v)
        if m is not None:
            findings.append(make_finding(prop, key_base + '|%s:bytes' % what, '%s: file %s holds wrong bytes' % (what, v), sr, m))
    return snap


def rel_role(u, v, key_base):
    return 'node'


def check_wellformed(sr, u, snap, key_base, findings):
    for v, detail in wellformed_obs(u, snap):
        role = 'root' if v == 'R' else 'orphan'
        findings.append(make_finding('C03', key_base + '|' + role, 'namespace not a well-formed tree: %s %s' % (v, detail), sr))


def check_errors(sr, u, key_base, findings, start, called_vars, cfgprefixes=()):
    """C12 monitor over all Err outcomes produced since log index `start`"""
    w = sr.w
    for i in range(start, len(sr.outcomes)):
        line, o = sr.outcomes[i]
        if o is None or o.tag != 'err' or o.path is None:
            continue
        toks = line.split()
        op = toks[0]
        pvars = [x for x in toks[1:3] if x in sr.paths]
        if op in ('join',):
            continue
        p = S(o.path)
        if p.is_concrete() and bytes(p) == PLACEHOLDER:
            findings.append(make_finding('C12', key_base + '|placeholder:%s' % op, '%s returned an error whose path is the unfilled placeholder' % op, sr))
            continue
        okp = False
        for pv in pvars:
            s = w.as_str(sr.paths[pv])
            # the path itself, an ancestor (prefix at '/') or a descendant
            if sr.ex.branch(seq_eq(p, s)):
                okp = True
                break
            if len(p) < len(s) and sr.ex.branch(zand([seq_eq(p, s[:len(p)]), beq(s[len(p)], 0x2f)])):
                okp = True
                break
            if len(p) > len(s) and sr.ex.branch(zand([seq_eq(s, p[:len(s)]), beq(p[len(s)], 0x2f)])):
                okp = True
                break
        if not okp and pvars:
            findings.append(make_finding('C12', key_base + '|foreign_path:%s' % op,
                                         '%s returned an error naming path %r, which is neither the call path, its destination, nor an ancestor/descendant' % (op, p), sr))


def consistency(sr, u, snap, t_hint, key_base, findings, prefix='', walk=True):
    """C05: the observers tell one consistent story (evaluated on a snapshot + extra observers)"""
    ex, w = sr.ex, sr.w
    for v in u.vars:
        o = snap[v]
        pv = prefix + v if (prefix or v != 'R') else 'R'
        if is_err(o.exists):
            continue
        # is_file / is_dir agree with metadata
        sr.do('is_file %s' % pv); isf = sr.last
        sr.do('is_dir %s' % pv); isd = sr.last
        kind = observed_kind(o)
        if isf.ok and isd.ok:
            if (isf.value, isd.value) != (kind == 'file', kind == 'dir'):
                findings.append(make_finding('C05', key_base + '|is_file_is_dir', '%s: is_file=%s is_dir=%s but exists/metadata say %s' % (v, isf.value, isd.value, kind), sr))
        if o.exists is True and is_err(o.meta):
            findings.append(make_finding('C05', key_base + '|exists_without_metadata', '%s exists but metadata fails' % v, sr))
        if o.exists is False and not is_err(o.meta):
            findings.append(make_finding('C05', key_base + '|metadata_without_exists', '%s has metadata but does not exist' % v, sr))
        # "a path exists iff its parent lists its name exactly once": an existing path whose parent cannot be listed at all
        # (absent, or not a directory) is listed zero times
        if v != 'R' and o.exists is True:
            po = snap[u.parent(v)]
            if po.listing is None or is_err(po.listing):
                findings.append(make_finding('C05', key_base + '|exists_but_parent_not_listable', '%s exists, but read_dir of its parent fails: no listing contains it' % v, sr))
        # directory iff it can be listed; file iff it can be read
        can_list = o.listing is not None and not is_err(o.listing)
        can_read = o.content is not None and not is_err(o.content)
        if can_list != (kind == 'dir'):
            findings.append(make_finding('C05', key_base + '|listable:%s' % kind, '%s is %s but read_dir %s' % (v, kind, 'succeeds' if can_list else 'fails'), sr))
        if can_read != (kind == 'file'):
            findings.append(make_finding('C05', key_base + '|readable:%s' % kind, '%s is %s but open_file+read %s' % (v, kind, 'succeeds' if can_read else 'fails'), sr))
        # exists iff the parent lists the name exactly once; listed names are bare children
        if can_list:
            base = w.as_str(sr.paths[pv])
            cands = [(c, w.as_str(sr.paths[prefix + c])) for c in u.children(v)]
            matched, foreign = match_names(ex, o.listing, cands)
            for nm in o.listing:
                rest = nm[len(base):]
                good = len(nm) > len(base) + 1 and ex.branch(zand([seq_eq(nm[:len(base)], base), beq(nm[len(base)], 0x2f)])) \
                    and not ex.branch(zor([beq(b, 0x2f) for b in rest[1:]]))
                if not good:
                    findings.append(make_finding('C05', key_base + '|listed_name_not_bare', 'read_dir(%s) yields %r, not parent + "/" + bare name' % (v, nm), sr))
            for c in u.children(v):
                cnt = matched.count(c)
                ce = snap[c].exists
                if is_err(ce):
                    continue
                if cnt != (1 if ce else 0):
                    findings.append(make_finding('C05', key_base + '|listing_vs_exists', '%s: exists=%s but its parent lists it %d times' % (c, ce, cnt), sr))
            for nm in foreign:
                # an entry outside the universe (e.g. overlay bookkeeping, reported under C10): C05 only asks that the
                # observers agree about it
                if not foreign_exists(sr, nm, prefix):
                    findings.append(make_finding('C05', key_base + '|foreign_entry_absent', 'read_dir(%s) lists %r, but exists() on it is false' % (v, nm), sr))
    if walk:
        pv = prefix + 'R' if prefix else 'R'
        sr.do('walk_dir %s' % pv)
        o = sr.last
        if not o.ok:
            if o.tag == 'err':
                findings.append(make_finding('C05', key_base + '|walk_fails', 'walk_dir(root) fails: %s' % o.brief(), sr))
            return
        cands = [(c, w.as_str(sr.paths[prefix + c])) for c in u.vars if c != 'R']
        seen = []
        for it in o.value:
            if isinstance(it, Outcome):
                findings.append(make_finding('C05', key_base + '|walk_err_item', 'walk_dir yields an error item %s' % it.brief(), sr))
                continue
            m, foreign = match_names(ex, [it], cands)
            if foreign:
                if not foreign_exists(sr, it, prefix):
                    findings.append(make_finding('C05', key_base + '|walk_foreign_absent', 'walk_dir yields %r, but exists() on it is false' % (it,), sr))
                continue
            c = m[0]
            par = u.parent(c)
            if par != 'R' and par not in seen:
                findings.append(make_finding('C05', key_base + '|walk_order', 'walk_dir yields %s before its directory %s' % (c, par), sr))
            if c in seen:
                findings.append(make_finding('C05', key_base + '|walk_duplicate', 'walk_dir yields %s twice' % c, sr))
            seen.append(c)
        for c in u.vars:
            if c == 'R' or is_err(snap[c].exists):
                continue
            reach = snap[c].exists is True and all(observed_kind(snap[a]) == 'dir' for a in u.ancestors(c))
            if reach and c not in seen:
                findings.append(make_finding('C05', key_base + '|walk_misses', 'walk_dir does not yield existing %s' % c, sr))
            if c in seen and snap[c].exists is not True:
                findings.append(make_finding('C05', key_base + '|walk_ghost', 'walk_dir yields %s which does not exist' % c, sr))


def foreign_exists(sr, full, prefix=''):
    """exists() of a listed path that is not part of the universe (full = absolute path bytes, concrete)"""
    full = S(full)
    if not full.is_concrete():
        return True
    k = len([x for x in sr.paths if x.startswith('fx')])
    var = 'fx%d' % k
    root = (prefix + 'R') if prefix else 'R'
    sr.do('join %s %s %s' % (var, root, hx(bytes(full))))
    if not sr.last.ok:
        return True
    sr.do('exists %s' % var)
    return sr.last.ok and sr.last.value is True


def perm_order_hook(ex, items):
    """fork over every iteration order of a map (C05: hash order is arbitrary)"""
    items = list(items)
    out = []
    while items:
        k = ex.choose(len(items), 'order')
        out.append(items.pop(k))
    return out


def run_step_case(prog, params):
    """params: dict(cfg, universe, shape, lens, ops, targets, props, dlen, release, perm)"""
    res = CaseResult()
    u = UNIVERSES[params['universe']]()
    shape = params['shape']
    props = set(params['props'])
    release = params.get('release', False)
    ops = params['ops']
    targets = params.get('targets') or u.vars
    res.states = 1
    for op in ops:
        for v in targets:
            for dlen in (params.get('dlens') or [1]) if op in ('write', 'append') else [None]:
                key_holder = {}

                def h(ex, op=op, v=v, dlen=dlen):
                    findings = []
                    sr = ScriptRunner(ex)
                    sr.outcomes = []
                    _do = sr.do

                    def do(line):
                        r = _do(line)
                        sr.outcomes.append((line, sr.last))
                        return r
                    sr.do = do
                    if params.get('perm'):
                        # one of three iteration orders of every hash map / set, chosen per path
                        which = ex.choose(3, 'map order')
                        if which:
                            ex.hooks['map_order'] = (lambda ex_, items: list(reversed(items))) if which == 1 else \
                                (lambda ex_, items: items[1:] + items[:1])
                    ctx = build_config(sr, params['cfg'], u)
                    t = ctx['setup'].build(shape, lens=params.get('lens') or [1, 0, 2])
                    key_base = '%s|%s|%s' % (params['cfg'], op, target_class(t, v))
                    start = len(sr.outcomes)
                    line, data = op_line(op, v, sr, ex, dlen)
                    out = sr.do(line)
                    o = sr.last
                    exp = contract(t, op, v, data=data)
                    if o.tag in ('panic', 'deadlock'):
                        findings.append(make_finding('C13', '%s|%s:%s' % (key_base, o.tag, (o.where or '?')),
                                                     '%s on %s (%s) %ss: %s' % (op, v, target_class(t, v), o.tag, o.msg), sr,
                                                     profile='release' if release else 'dev'))
                    tag = params.get('tag', 'C01')
                    changed = check_outcome(props, out, exp, op, key_base, findings, sr, t, v, prop=tag) if tag in props else None
                    if 'C12' in props and exp.status == 'err' and exp.errclass and o.tag == 'err' and o.kind != exp.errclass:
                        findings.append(make_finding('C12', key_base + '|misclassified:%s' % o.kind.split(':')[0],
                                                     '%s on %s: %s must be classified as %s, got %s' % (op, v, exp.why, exp.errclass, o.kind), sr))
                    want_snap = props & {'C01', 'C03', 'C05', 'C11'}
                    if want_snap and o.tag not in ('deadlock',):
                        if exp.status in ('ok', 'ok_or_utf8') and o.ok:
                            exp_tree, what = exp.tree, 'post_state'
                        elif exp.status == 'err' and not o.ok:
                            exp_tree, what = t, 'changed_on_failure'
                        else:
                            exp_tree, what = None, None      # contract violated or unspecified: only C03/C05 apply
                        if tag in props and exp_tree is not None:
                            snap = check_post_state(sr, u, exp_tree, key_base, findings, what, prop=tag)
                        else:
                            snap = snapshot(sr, u)
                        if 'C03' in props and not (exp.status == 'unspecified' and v == 'R'):
                            check_wellformed(sr, u, snap, key_base, findings)
                        if 'C05' in props and not (exp.status == 'unspecified' and v == 'R'):
                            consistency(sr, u, snap, t, key_base, findings)
                    if 'C12' in props:
                        check_errors(sr, u, key_base, findings, start, [v])
                    if 'C13' in props:
                        for line_, oo in sr.outcomes[start + 1:]:
                            if oo is not None and oo.tag in ('panic', 'deadlock'):
                                findings.append(make_finding('C13', '%s|observer_%s:%s' % (key_base, oo.tag, oo.where or '?'),
                                                             'observer `%s` after %s %ss: %s' % (line_, op, oo.tag, oo.msg), sr,
                                                             profile='release' if release else 'dev'))
                    if not res.samples:
                        res.samples.append({'config': params['cfg'], 'pre_state': shape_str(shape), 'call': line,
                                            'outcome': out, 'contract': exp.status + ((':' + str(exp.errclass)) if exp.errclass else ''),
                                            'path_condition_size': len(ex.pc)})
                    return findings
                fs, inc = explore(prog, h, res.stats, release=release)
                res.findings += fs
                res.inconclusive += inc
                res.evals += 1
    return res
