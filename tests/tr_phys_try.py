import sys, time
sys.path.insert(0, '/verif')
from harness.props import *
from harness import transfer
from harness.framework import run_cases
from mirsym.engine import Stats
prog = load_program()
cases = transfer.transfer_cases(sys.argv[1].split(','), ['C11', 'C13'], 'quick', 1, (2,))
print(len(cases))
cases = cases[::int(sys.argv[2])]
t = time.time()
r = run_cases(prog, transfer.run_transfer_case, cases)
print('wall', time.time() - t)
st = Stats(); keys = {}; inc = []
for x in r:
    st.merge(x.stats); inc += x.inconclusive
    for f in x.findings: keys.setdefault((f.prop, f.key), f)
print('paths', st.paths, 'queries', st.queries, 'unsat', st.unsat, 'asserts', st.asserts, st.discharged)
for k in sorted(keys): print(k, keys[k].detail[:200])
print('incon', len(inc), [str(i)[:300] for i in inc[:3]])
