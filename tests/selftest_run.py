import sys, time
sys.path.insert(0, '/verif')
from mirsym.engine import Program
from harness.selftest import run_selftest
prog = Program(open(sys.argv[1]).read(), sys.argv[2])
seed = int(sys.argv[3]) if len(sys.argv) > 3 else 1
n = int(sys.argv[4]) if len(sys.argv) > 4 else 20
kinds = sys.argv[5].split(',') if len(sys.argv) > 5 and sys.argv[5] != '-v' else None
t = time.time()
ns, nl, mism, incon, st, joined = run_selftest(prog, seed, n, kinds=kinds, verbose=True)
print('scripts', ns, 'lines', nl, 'mismatches', len(mism), 'inconclusive', len(incon), 'time %.1f' % (time.time() - t))
for i in sorted(set(incon))[:10]: print('  ', i)
if mism and '-v' in sys.argv:
    ln = mism[0][0]
    s = ln
    while s > 0 and joined[s-1] != 'reset': s -= 1
    print('\n'.join('%d %s' % (k+1, joined[k]) for k in range(s, ln)))
