import sys, time
sys.path.insert(0, '/verif')
from harness.framework import load_program
from harness.selftest import run_selftest
prog = load_program()
seed = int(sys.argv[1]) if len(sys.argv) > 1 else 1
n = int(sys.argv[2]) if len(sys.argv) > 2 else 20
kinds = sys.argv[3].split(',') if len(sys.argv) > 3 and sys.argv[3] != '-v' else None
t = time.time()
ns, nl, mism, incon, st, joined = run_selftest(prog, seed, n, kinds=kinds, verbose=True)
print('scripts', ns, 'lines', nl, 'mismatches', len(mism), 'inconclusive', len(incon), 'time %.1f' % (time.time() - t))
for i in sorted(set(incon))[:10]: print('  ', i)
if mism and '-v' in sys.argv:
    ln = mism[0][0]
    s = ln
    while s > 0 and joined[s-1] != 'reset': s -= 1
    print('\n'.join('%d %s' % (k+1, joined[k]) for k in range(s, ln)))
