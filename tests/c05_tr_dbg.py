import sys, traceback
sys.path.insert(0, '/verif')
from harness.props import *
from harness import transfer
prog = load_program()
cases = transfer.transfer_cases(['same_mem'], ['C05'], 'quick', 1)[::2]
n = 0
for c in cases:
    try:
        r = transfer.run_transfer_case(prog, c)
        for i in r.inconclusive[:1]: print('INC', i[:300])
        for f in r.findings[:1]: print('F', f.key, f.detail[:150]); n += 1
    except Exception:
        traceback.print_exc(); break
    if n > 2: break
