import sys, time
sys.path.insert(0, '/verif')
from harness.framework import load_program
from harness import threads, core
prog = load_program()
t = time.time()
for programs in ([[('create_dir', 'a_b')], [('remove_dir', 'a')]], [[('write', 'a_b')], [('remove_dir', 'a')]], [[('create_dir', 'ab')], [('create_dir', 'ab')]],
                 [[('write', 'ab')], [('append', 'ab')]], [[('read', 'ab')], [('write', 'ab')]]):
    r = threads.run_concurrent_case(prog, {'cfg': 'mem', 'universe': 'U3', 'shape': (('a', 'd'), ('ab', 'f')), 'programs': programs, 'mode': 'linearizable'})
    print(programs, 'paths', r.stats.paths, 'findings', len(r.findings), r.inconclusive[:2], '%.1fs' % (time.time() - t))
    seen = set()
    for f in r.findings:
        if f.key not in seen:
            seen.add(f.key); print('   ', f.key, '::', f.detail[:200])
r = threads.run_concurrent_case(prog, {'cfg': 'mem', 'universe': 'U4', 'shape': (), 'programs': [[('create_dir_all', 'a_b_c')], [('create_dir_all', 'a_b')]], 'mode': 'all_ok'})
print('c17', 'paths', r.stats.paths, 'findings', len(r.findings), r.inconclusive[:2], '%.1fs' % (time.time() - t))
