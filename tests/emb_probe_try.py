import sys, time
sys.path.insert(0, '/verif')
from harness.props import *
from harness import embedded
from harness.framework import run_cases
from mirsym.engine import Stats
prog = load_program(('embedded-fs',))
cases = [{'files': fs_, 'len': L} for fs_ in (embedded.CANDIDATES, ['b/e', 'b.x/g'], []) for L in range(2, int(sys.argv[1]) + 1)]
t = time.time()
r = run_cases(prog, embedded.run_embedded_probe_case, cases)
print('wall', time.time() - t)
st = Stats(); keys = {}; inc = []
for x in r:
    st.merge(x.stats); inc += x.inconclusive
    for f in x.findings: keys.setdefault((f.prop, f.key), f)
print('paths', st.paths, 'queries', st.queries, 'unsat', st.unsat, 'asserts', st.asserts, st.discharged)
for k in sorted(keys): print(k, keys[k].detail[:200])
print('incon', len(inc), inc[:3])
