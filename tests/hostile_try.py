import sys
sys.path.insert(0, '/verif')
from harness.props import *
from harness import handles
prog = load_program()
for k in ('socket', 'dangling_link'):
    r = handles.run_hostile_dir_case(prog, {'name': b's', 'kind': k, 'props': ['C12', 'C13']})
    print(k, r.stats.paths, [(f.prop, f.key, f.detail[:120]) for f in r.findings], r.inconclusive[:2], r.samples)
