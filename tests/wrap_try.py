import sys
sys.path.insert(0, '/verif')
from harness.framework import load_program
from harness.script import ScriptRunner, run_native
from mirsym.engine import explore, Stats
prog = load_program()
script = '''fs U wmem u
fs L wmem l
join lf L 66
write lf 4142
fs R ovl U L
join f R 66
join d R 64
create_dir d
log u
log l
arm u 3
append f 43
disarm u
read f 3
log u
log l
arm l 2
read f 3
arm u 2
create_dir_all d
exists d'''
box = {}
def h(ex):
    sr = ScriptRunner(ex)
    box['out'] = sr.run(script)
    return []
print(explore(prog, h, Stats()))
nat = run_native(script)
for a, b, l in zip(box['out'], nat, script.split('\n')):
    print('%-22s %-40s %s' % (l, a, '' if a == b else '   NATIVE: ' + b))
