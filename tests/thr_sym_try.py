import sys, time
sys.path.insert(0, '/verif')
from harness.props import *
from harness import threads
from harness.framework import run_cases
from mirsym.engine import Stats
prog = load_program()
u = UNIVERSES['USYM']()
shs = shapes(u)
print(len(shs))
calls = [(op, v) for op in C16_OPS for v in ('n1', 'n1_n3', 'n2')]
pairs = []
for i, c1 in enumerate(calls):
    for c2 in calls[i:]:
        if c1[0] not in C16_MUT and c2[0] not in C16_MUT: continue
        if c1[1] == c2[1] or {c1[1], c2[1]} == {'n1', 'n1_n3'}: pairs.append([[c1], [c2]])
import random
rng = random.Random(1)
cases = [{'cfg': 'mem', 'universe': 'USYM', 'shape': sh, 'programs': pr, 'mode': 'linearizable'} for sh in shs for pr in pairs]
rng.shuffle(cases)
cases = cases[:int(sys.argv[1])]
t = time.time()
r = run_cases(prog, threads.run_concurrent_case, cases)
print('wall', time.time() - t)
st = Stats(); keys = {}; inc = []
for x in r:
    st.merge(x.stats); inc += x.inconclusive
    for f in x.findings: keys.setdefault((f.prop, f.key), f)
print('paths', st.paths, 'queries', st.queries, 'unsat', st.unsat, 'asserts', st.asserts)
for k in sorted(keys): print(k, keys[k].detail[:200])
print('incon', len(inc), inc[:3])
