import sys, time
sys.path.insert(0, '/verif')
from harness.framework import load_program
from harness import overlay, core
prog = load_program()
u = overlay.UO3()
cfgs = overlay.layer_configs(u, 2)
print('configs', len(cfgs))
import random
random.Random(1).shuffle(cfgs)
vars_ = u.vars
h1 = [[(op, v)] for op in overlay.HIST_OPS for v in vars_]
t = time.time()
tot = 0
keys = {}
for cfg in cfgs[:6]:
    r = overlay.run_history_case(prog, {'universe': 'UO3', 'nlayers': 2, 'cfg': cfg, 'histories': h1, 'props': ['C08', 'C09', 'C10', 'C03', 'C13']})
    for f in r.findings:
        keys.setdefault((f.prop, f.key), f)
    print(overlay.cfg_str(cfg), 'evals', r.evals, 'findings', len(r.findings), 'incon', r.inconclusive[:2], 'paths', r.stats.paths, 'steps', r.stats.steps, '%.1fs' % (time.time() - t))
for k, f in sorted(keys.items()):
    print(k, '::', f.detail[:150])
