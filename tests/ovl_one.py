import sys
sys.path.insert(0, '/verif')
from harness.framework import load_program
from harness import overlay
prog = load_program()
u = overlay.UOW()
cfg = (('a', 'f', frozenset([1])), ('awo', 'f', frozenset([1])))
r = overlay.run_history_case(prog, {'universe': 'UOW', 'nlayers': 2, 'cfg': cfg, 'histories': [[('remove_file', 'awo')]], 'props': ['C10', 'C09', 'C05']})
for f in r.findings: print(f.prop, f.key, '::', f.detail)
print(r.inconclusive)
