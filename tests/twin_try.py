import sys, time
sys.path.insert(0, '/verif')
from harness.framework import load_program
from harness import twins, core, onestep
prog = load_program(('async-vfs',))
u = core.U3()
ops = [(op, v) for op in onestep.PRIMS + onestep.OBSERVERS + onestep.COMPOSITES for v in u.vars]
t = time.time()
keys = {}
for sh in core.shapes(u)[::4]:
    r = twins.run_twin_case(prog, {'universe': 'U3', 'config': 'mem', 'state': sh, 'ops': ops})
    for f in r.findings: keys.setdefault((f.prop, f.key), f)
    print(core.shape_str(sh), 'paths', r.stats.paths, 'findings', len(r.findings), r.inconclusive[:2], '%.1fs' % (time.time() - t))
for k, f in sorted(keys.items()): print(k, '::', f.detail[:140])
