import sys, time
sys.path.insert(0, '/verif')
from harness.framework import load_program
from harness import twins, core, onestep, overlay
prog = load_program(('async-vfs',))
u = core.U3()
ops = [(op, v) for op in onestep.PRIMS + onestep.OBSERVERS + onestep.COMPOSITES for v in u.vars]
t = time.time()
keys = {}
for sh in core.shapes(u)[::5]:
    r = twins.run_twin_case(prog, {'universe': 'U3', 'config': 'alt', 'state': sh, 'ops': ops})
    for f in r.findings: keys.setdefault((f.prop, f.key), f)
    print('alt', core.shape_str(sh), 'paths', r.stats.paths, 'findings', len(r.findings), r.inconclusive[:2], '%.1fs' % (time.time() - t))
uo = overlay.UO3()
cfgs = overlay.layer_configs(uo, 2)
for cfg in cfgs[::17]:
    r = twins.run_twin_case(prog, {'universe': 'UO3', 'config': 'ovl', 'state': cfg, 'ops': [(op, v) for op in overlay.HIST_OPS + overlay.OBS_OPS for v in uo.vars]})
    for f in r.findings: keys.setdefault((f.prop, f.key), f)
    print('ovl', overlay.cfg_str(cfg), 'paths', r.stats.paths, 'findings', len(r.findings), r.inconclusive[:2], '%.1fs' % (time.time() - t))
for k, f in sorted(keys.items()): print(k, '::', f.detail[:140])
