import sys
sys.path.insert(0, '/verif')
from harness.props import *
from harness import threads
prog = load_program()
c = {'cfg': 'ovl_lowerpre', 'universe': 'U4', 'shape': (('a', 'd'),), 'programs': [[('create_dir_all', 'a_b')], [('create_dir_all', 'a_b')]], 'mode': 'all_ok', 'preemption_bound': 1}
r = threads.run_concurrent_case(prog, c)
print(r.stats.paths, [(f.key, f.detail[:150]) for f in r.findings][:3], r.inconclusive[:2], r.samples[:1])
