import sys, time
sys.path.insert(0, '/verif')
from harness.props import *
from harness import overlay
from harness.framework import run_cases
prog = load_program()
t = time.time()
cs = ovl_cases('USYM', 2, ['C09', 'C03', 'C10', 'C05', 'C13'], 1, ncfg=int(sys.argv[1]), k1_ops=overlay.HIST_OPS + ['read_dir', 'exists'], k2=int(sys.argv[2]), removal_first=True)
print(len(cs), sum(len(c['histories']) for c in cs))
r = run_cases(prog, overlay.run_history_case, cs)
print('wall', time.time() - t)
from mirsym.engine import Stats
st = Stats()
keys = {}
inc = []
for x in r:
    st.merge(x.stats)
    inc += x.inconclusive
    for f in x.findings:
        keys.setdefault((f.prop, f.key), f)
print('paths', st.paths, 'queries', st.queries, 'unsat', st.unsat)
for k in sorted(keys): print(k, keys[k].detail[:150])
print('incon', len(inc), inc[:3])
