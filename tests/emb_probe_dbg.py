import sys
sys.path.insert(0, '/verif')
from harness.props import *
from harness import embedded
from harness.framework import run_cases
prog = load_program(('embedded-fs',))
r = embedded.run_embedded_probe_case(prog, {'files': embedded.CANDIDATES, 'len': 4})
print(r.stats.paths, r.samples, r.findings, r.inconclusive)
