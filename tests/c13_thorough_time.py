import sys, time
sys.path.insert(0, '/verif')
from harness import props, framework
from harness.props import *
orig = framework.run_cases
def timed(prog, fn, cases, nproc=None):
    t = time.time()
    r = orig(prog, fn, cases, nproc)
    sl = max([x.extra.get('wall_s', 0) for x in r] or [0])
    print('FAMILY %-28s cases=%5d wall=%7.1fs slowest=%6.1fs paths=%d' % (fn.__name__, len(cases), time.time() - t, sl, sum(x.stats.paths for x in r)), flush=True)
    return r
props.run_cases = timed
framework.run_cases = timed
import harness.props as P
P.REGISTRY[sys.argv[1]](sys.argv[2], 1)
