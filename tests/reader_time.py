import sys, time
sys.path.insert(0, '/verif')
from harness.props import *
from harness import handles
from harness.framework import run_cases
prog = load_program()
cs = reader_cases('quick', 'C14')
r = run_cases(prog, handles.run_reader_case, cs)
for c, x in sorted(zip(cs, r), key=lambda p: -p[1].extra['wall_s'])[:8]:
    print(round(x.extra['wall_s'], 1), x.stats.paths, x.stats.queries, c)
