import sys
sys.path.insert(0, '/verif')
from harness.props import *
from harness import embedded
prog = load_program(('embedded-fs',))
r = embedded.run_embedded_two_case(prog, {'files1': ['a.txt', 'b/e'], 'files2': ['b/d.txt', 'c/é/h'], 'order': (1, 2)})
print(r.stats.paths, r.samples, [(f.key, f.detail[:120]) for f in r.findings][:6], r.inconclusive)
