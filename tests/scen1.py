import sys, time
sys.path.insert(0, '/verif')
from mirsym.engine import Program, Exec, Stats, explore
from mirsym.values import *
from harness.api import World
import z3

mir = open(sys.argv[1]).read()
prog = Program(mir, sys.argv[2])
print('enums', {k: v for k, v in prog.enums.items() if k.startswith('Vfs')})

def scen(ex):
    w = World(ex)
    root = w.new_mem()
    log = []
    a = w.path(root, '/a')
    log.append(('create_dir /a', w.create_dir(a)))
    log.append(('create_dir /a again', w.create_dir(a)))
    log.append(('exists /a', w.exists(a)))
    f = w.path(root, '/a/f')
    data = w.sym_bytes(2)
    log.append(('write /a/f', w.write_file(f, data)))
    log.append(('metadata /a/f', w.metadata(f)))
    log.append(('read_dir /', w.read_dir(root)))
    log.append(('read /a/f', w.read_all(f, 1)))
    log.append(('read /a/f', w.read_all(f, 3)))
    log.append(('read_to_string /a/f', w.read_to_string(f)))
    log.append(('walk /', w.walk_dir(root)))
    log.append(('copy_file', w.copy_file(f, w.path(root, '/g'))))
    log.append(('read /g', w.read_all(w.path(root, '/g'), 3)))
    log.append(('move_file', w.move_file(f, w.path(root, '/h'))))
    log.append(('create_dir_all', w.create_dir_all(w.path(root, '/x/y/z'))))
    log.append(('copy_dir', w.copy_dir(w.path(root, '/x'), w.path(root,'/x2'))))
    log.append(('move_dir', w.move_dir(w.path(root, '/x'), w.path(root,'/x3'))))
    log.append(('remove_dir_all', w.remove_dir_all(w.path(root, '/x2'))))
    log.append(('remove_file /a (dir!)', w.remove_file(a)))
    log.append(('exists /a', w.exists(a)))
    log.append(('create_dir /q/y', w.create_dir(w.path(root, '/q/y'))))
    log.append(('walk /', w.walk_dir(root)))
    for l in log: print('  ', l)
    print('   decisions', ex.decisions)
    return []

st = Stats()
t = time.time()
v, inc = explore(prog, scen, st)
print('paths', st.paths, 'queries', st.queries, 'steps', st.steps, 'time %.2f' % (time.time() - t), 'inconclusive', inc)
