import sys
sys.path.insert(0, '/verif')
from harness.framework import load_program
from harness import asynck
prog = load_program(('async-vfs',))
print('dump', prog.dump_lines)
for clen in (0, 2):
    r = asynck.run_async_reader_case(prog, {'clen': clen, 'k': 2})
    print(clen, 'paths', r.stats.paths, 'findings', len(r.findings), r.inconclusive[:2])
    seen = set()
    for f in r.findings:
        if f.key not in seen:
            seen.add(f.key); print('   ', f.key, '::', f.detail[:170])
