import sys, time
sys.path.insert(0, '/verif')
from harness.framework import load_program
from harness import embedded
prog = load_program(('embedded-fs',))
print('dump lines', prog.dump_lines)
for files in ([], ['a.txt'], ['a.txt', 'b/d.txt', 'b/e', 'c/é/h'], embedded.CANDIDATES):
    r = embedded.run_embedded_case(prog, {'files': files})
    print(files, 'paths', r.stats.paths, 'findings', len(r.findings), r.inconclusive[:2])
    seen = set()
    for f in r.findings:
        if f.key not in seen:
            seen.add(f.key); print('   ', f.prop, f.key, '::', f.detail[:160])
