import sys
sys.path.insert(0, '/verif')
from harness.framework import load_program
from harness.script import ScriptRunner
from mirsym.engine import explore, Stats
prog = load_program(('async-vfs',))
script = '''fs R amem
join a R 61
create_dir a
create_dir a
exists a
join f a 66
write f 4142
metadata f
read f 3
read_dir R
read_dir a
append f 43
read f 2
read_to_string f
walk_dir R
join g R 67
copy_file f g
read g 3
move_file g a
remove_file f
remove_dir a
create_dir_all f
remove_dir_all a
walk_dir R
fs S mem
join sa S 61
create_dir sa'''
box = {}
def h(ex):
    sr = ScriptRunner(ex)
    box['out'] = sr.run(script)
    return []
r = explore(prog, h, Stats())
print(r)
for a, l in zip(box.get('out', []), script.split('\n')):
    print('%-22s %s' % (l, a))
