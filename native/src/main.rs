//! Native script driver: executes operation scripts against the natively compiled crate (public
//! API only) and prints one normalised outcome line per operation.  The same scripts are executed
//! by the MIR engine (harness/script.py); the two outputs must be identical.  Used (a) to validate
//! the encoder (selftest) and (b) to replay every solver counterexample before it is reported.
use std::collections::HashMap;
use std::fmt::Debug;
use std::io::{Read, Seek, SeekFrom, Write};
use std::panic::{catch_unwind, AssertUnwindSafe};
use std::sync::{Arc, Mutex};
use std::time::{Duration, SystemTime, UNIX_EPOCH};
use vfs::error::VfsErrorKind;
use vfs::*;

#[derive(Default)]
struct Ctl {
    count: usize,
    fail_at: Option<usize>,
    log: Vec<String>,
}

/// recording + fault-injecting wrapper around any FileSystem (public trait, no hook)
#[derive(Debug)]
struct Wrap {
    inner: Box<dyn FileSystem>,
    ctl: Arc<Mutex<Ctl>>,
}
impl Debug for Ctl {
    fn fmt(&self, f: &mut std::fmt::Formatter<'_>) -> std::fmt::Result {
        f.write_str("Ctl")
    }
}
impl Wrap {
    fn tick(&self, m: &str, p: &str, mutating: bool) -> VfsResult<()> {
        let mut c = self.ctl.lock().unwrap();
        c.count += 1;
        if mutating {
            c.log.push(format!("{}:{}", m, hex(p.as_bytes())));
        }
        if c.fail_at == Some(c.count) {
            c.fail_at = None;
            return Err(VfsError::from(std::io::Error::new(std::io::ErrorKind::Other, "injected fault")));
        }
        Ok(())
    }
}
impl FileSystem for Wrap {
    fn read_dir(&self, p: &str) -> VfsResult<Box<dyn Iterator<Item = String> + Send>> { self.tick("read_dir", p, false)?; self.inner.read_dir(p) }
    fn create_dir(&self, p: &str) -> VfsResult<()> { self.tick("create_dir", p, true)?; self.inner.create_dir(p) }
    fn open_file(&self, p: &str) -> VfsResult<Box<dyn SeekAndRead + Send>> { self.tick("open_file", p, false)?; self.inner.open_file(p) }
    fn create_file(&self, p: &str) -> VfsResult<Box<dyn SeekAndWrite + Send>> { self.tick("create_file", p, true)?; self.inner.create_file(p) }
    fn append_file(&self, p: &str) -> VfsResult<Box<dyn SeekAndWrite + Send>> { self.tick("append_file", p, true)?; self.inner.append_file(p) }
    fn metadata(&self, p: &str) -> VfsResult<VfsMetadata> { self.tick("metadata", p, false)?; self.inner.metadata(p) }
    fn set_creation_time(&self, p: &str, t: SystemTime) -> VfsResult<()> { self.tick("set_creation_time", p, true)?; self.inner.set_creation_time(p, t) }
    fn set_modification_time(&self, p: &str, t: SystemTime) -> VfsResult<()> { self.tick("set_modification_time", p, true)?; self.inner.set_modification_time(p, t) }
    fn set_access_time(&self, p: &str, t: SystemTime) -> VfsResult<()> { self.tick("set_access_time", p, true)?; self.inner.set_access_time(p, t) }
    fn exists(&self, p: &str) -> VfsResult<bool> { self.tick("exists", p, false)?; self.inner.exists(p) }
    fn remove_file(&self, p: &str) -> VfsResult<()> { self.tick("remove_file", p, true)?; self.inner.remove_file(p) }
    fn remove_dir(&self, p: &str) -> VfsResult<()> { self.tick("remove_dir", p, true)?; self.inner.remove_dir(p) }
    fn copy_file(&self, s: &str, d: &str) -> VfsResult<()> { self.tick("copy_file", s, true)?; self.inner.copy_file(s, d) }
    fn move_file(&self, s: &str, d: &str) -> VfsResult<()> { self.tick("move_file", s, true)?; self.inner.move_file(s, d) }
    fn move_dir(&self, s: &str, d: &str) -> VfsResult<()> { self.tick("move_dir", s, true)?; self.inner.move_dir(s, d) }
}

fn hex(b: &[u8]) -> String {
    if b.is_empty() { return "-".into(); }
    b.iter().map(|x| format!("{:02x}", x)).collect()
}
fn unhex(s: &str) -> Vec<u8> {
    if s == "-" { return vec![]; }
    (0..s.len() / 2).map(|i| u8::from_str_radix(&s[2 * i..2 * i + 2], 16).unwrap()).collect()
}
fn kind(e: &VfsError) -> String {
    match e.kind() {
        VfsErrorKind::IoError(io) => format!("IoError({:?})", io.kind()),
        VfsErrorKind::FileNotFound => "FileNotFound".into(),
        VfsErrorKind::InvalidPath => "InvalidPath".into(),
        VfsErrorKind::Other(_) => "Other".into(),
        VfsErrorKind::DirectoryExists => "DirectoryExists".into(),
        VfsErrorKind::FileExists => "FileExists".into(),
        VfsErrorKind::NotSupported => "NotSupported".into(),
        #[allow(unreachable_patterns)]
        _ => "OtherKind".into(),
    }
}
fn err(e: &VfsError) -> String {
    format!("err:{}:{}", kind(e), hex(e.path().as_bytes()))
}
fn ioerr(e: &std::io::Error) -> String {
    format!("ioerr:{:?}", e.kind())
}
fn unit(r: VfsResult<()>) -> String {
    match r { Ok(()) => "ok".into(), Err(e) => err(&e) }
}
fn tsec(t: Option<SystemTime>) -> String {
    match t {
        None => "none".into(),
        Some(t) => match t.duration_since(UNIX_EPOCH) {
            Ok(d) if d.subsec_nanos() == 0 && d.as_secs() < 1_000_000_000 => format!("{}", d.as_secs()),
            _ => "other".into(),
        },
    }
}

#[cfg(feature = "embed")]
#[derive(rust_embed::RustEmbed, Debug)]
#[folder = "/var/tmp/verif-embed"]
struct DynEmbed;

#[cfg(feature = "embed")]
#[derive(rust_embed::RustEmbed, Debug)]
#[folder = "/var/tmp/verif-embed2"]
struct DynEmbed2;

const EMBED_DIR: &str = "/var/tmp/verif-embed";
const EMBED_DIR2: &str = "/var/tmp/verif-embed2";

enum Handle {
    W(Box<dyn SeekAndWrite + Send>),
    R(Box<dyn SeekAndRead + Send>),
}

struct St {
    phys: HashMap<String, std::path::PathBuf>,
    walks: HashMap<String, vfs::WalkDirIterator>,
    paths: HashMap<String, VfsPath>,
    handles: HashMap<String, Handle>,
    ctls: HashMap<String, Arc<Mutex<Ctl>>>,
    tmp: Vec<std::path::PathBuf>,
}

#[cfg(feature = "asyncvfs")]
mod adrv {
    use super::{hex, unhex};
    use async_std::io::prelude::{ReadExt, SeekExt, WriteExt};
    use async_std::task::block_on;
    use futures::stream::StreamExt;
    use std::collections::HashMap;
    use std::io::SeekFrom;
    use vfs::async_vfs::{AsyncAltrootFS, AsyncMemoryFS, AsyncOverlayFS, AsyncVfsPath, SeekAndRead};
    use vfs::error::VfsErrorKind;
    use vfs::{VfsError, VfsFileType, VfsResult};

    type Walk = std::pin::Pin<Box<dyn futures::Stream<Item = VfsResult<AsyncVfsPath>> + Send>>;

    /// future that returns Pending `n` times (waking itself) before Ready
    struct PendN(usize);
    impl std::future::Future for PendN {
        type Output = ();
        fn poll(mut self: std::pin::Pin<&mut Self>, cx: &mut std::task::Context<'_>) -> std::task::Poll<()> {
            if self.0 == 0 { return std::task::Poll::Ready(()); }
            self.0 -= 1;
            cx.waker().wake_by_ref();
            std::task::Poll::Pending
        }
    }

    /// AsyncMemoryFS whose every filesystem call returns Pending `n` times first (public trait, no hook)
    #[derive(Debug)]
    struct Pending { inner: AsyncMemoryFS, n: usize }
    use vfs::async_vfs::AsyncFileSystem;
    #[async_trait::async_trait]
    impl AsyncFileSystem for Pending {
        async fn read_dir(&self, p: &str) -> VfsResult<Box<dyn Unpin + futures::Stream<Item = String> + Send>> { PendN(self.n).await; self.inner.read_dir(p).await }
        async fn create_dir(&self, p: &str) -> VfsResult<()> { PendN(self.n).await; self.inner.create_dir(p).await }
        async fn open_file(&self, p: &str) -> VfsResult<Box<dyn SeekAndRead + Send + Unpin>> { PendN(self.n).await; self.inner.open_file(p).await }
        async fn create_file(&self, p: &str) -> VfsResult<Box<dyn async_std::io::Write + Send + Unpin>> { PendN(self.n).await; self.inner.create_file(p).await }
        async fn append_file(&self, p: &str) -> VfsResult<Box<dyn async_std::io::Write + Send + Unpin>> { PendN(self.n).await; self.inner.append_file(p).await }
        async fn metadata(&self, p: &str) -> VfsResult<vfs::VfsMetadata> { PendN(self.n).await; self.inner.metadata(p).await }
        async fn exists(&self, p: &str) -> VfsResult<bool> { PendN(self.n).await; self.inner.exists(p).await }
        async fn remove_file(&self, p: &str) -> VfsResult<()> { PendN(self.n).await; self.inner.remove_file(p).await }
        async fn remove_dir(&self, p: &str) -> VfsResult<()> { PendN(self.n).await; self.inner.remove_dir(p).await }
    }

    #[derive(Default)]
    pub struct ASt {
        pub paths: HashMap<String, AsyncVfsPath>,
        pub readers: HashMap<String, Box<dyn SeekAndRead + Send + Unpin>>,
        pub writers: HashMap<String, Box<dyn async_std::io::Write + Send + Unpin>>,
        pub walks: HashMap<String, Walk>,
    }
    fn err(e: &VfsError) -> String {
        let k = match e.kind() {
            VfsErrorKind::IoError(io) => format!("IoError({:?})", io.kind()),
            VfsErrorKind::AsyncIoError(io) => format!("AsyncIoError({:?})", io.kind()),
            VfsErrorKind::FileNotFound => "FileNotFound".into(),
            VfsErrorKind::InvalidPath => "InvalidPath".into(),
            VfsErrorKind::Other(_) => "Other".into(),
            VfsErrorKind::DirectoryExists => "DirectoryExists".into(),
            VfsErrorKind::FileExists => "FileExists".into(),
            VfsErrorKind::NotSupported => "NotSupported".into(),
        };
        format!("err:{}:{}", k, hex(e.path().as_bytes()))
    }
    fn unit(r: VfsResult<()>) -> String {
        match r { Ok(()) => "ok".into(), Err(e) => err(&e) }
    }
    fn b(r: VfsResult<bool>) -> String {
        match r { Ok(x) => format!("ok:{}", x), Err(e) => err(&e) }
    }
    /// returns None when the line does not concern an async path/handle
    pub fn exec(st: &mut ASt, t: &[&str]) -> Option<String> {
        let has = |st: &ASt, k: &str| st.paths.contains_key(k);
        if t[0] == "fs" {
            let root = match t[2] {
                "amem" => AsyncVfsPath::new(AsyncMemoryFS::new()),
                "apend" => AsyncVfsPath::new(Pending { inner: AsyncMemoryFS::new(), n: t[3].parse().unwrap() }),
                "aalt" => AsyncVfsPath::new(AsyncAltrootFS::new(st.paths[t[3]].clone())),
                "aovl" => { let layers: Vec<AsyncVfsPath> = t[3..].iter().map(|k| st.paths[*k].clone()).collect(); AsyncVfsPath::new(AsyncOverlayFS::new(&layers)) }
                _ => return None,
            };
            st.paths.insert(t[1].into(), root);
            return Some("ok".into());
        }
        if t[0] == "reset_async" { *st = ASt::default(); return Some("ok".into()); }
        match t[0] {
            "join" | "parent" | "root" if has(st, t[2]) => {
                let r = match t[0] { "join" => st.paths[t[2]].join(String::from_utf8(unhex(t[3])).unwrap()), "parent" => Ok(st.paths[t[2]].parent()), _ => Ok(st.paths[t[2]].root()) };
                return Some(match r { Ok(v) => { let s = format!("ok:{}", hex(v.as_str().as_bytes())); st.paths.insert(t[1].into(), v); s } Err(e) => err(&e) });
            }
            "hopen" if has(st, t[2]) => {
                let p = st.paths[t[2]].clone();
                return Some(block_on(async {
                    match t[3] {
                        "open" => match p.open_file().await { Ok(h) => { st.readers.insert(t[1].into(), h); "ok".to_string() } Err(e) => err(&e) },
                        "create" => match p.create_file().await { Ok(h) => { st.writers.insert(t[1].into(), h); "ok".to_string() } Err(e) => err(&e) },
                        _ => match p.append_file().await { Ok(h) => { st.writers.insert(t[1].into(), h); "ok".to_string() } Err(e) => err(&e) },
                    }
                }));
            }
            "wopen" if has(st, t[2]) => {
                let p = st.paths[t[2]].clone();
                return Some(block_on(async { match p.walk_dir().await { Ok(w) => { st.walks.insert(t[1].into(), Box::pin(w)); "ok".to_string() } Err(e) => err(&e) } }));
            }
            "wnext" if st.walks.contains_key(t[1]) => {
                return Some(block_on(async { match st.walks.get_mut(t[1]).unwrap().next().await { None => "ok:none".to_string(), Some(Ok(v)) => format!("ok:some:{}", hex(v.as_str().as_bytes())), Some(Err(e)) => err(&e) } }));
            }
            "wdrop" if st.walks.contains_key(t[1]) => { st.walks.remove(t[1]); return Some("ok".into()); }
            "hread" if st.readers.contains_key(t[1]) => return Some(block_on(async {
                let n: usize = t[2].parse().unwrap();
                let mut buf = vec![0u8; n];
                match st.readers.get_mut(t[1]).unwrap().read(&mut buf).await { Ok(k) => format!("ok:{}:{}", k, hex(&buf[..k.min(n)])), Err(e) => format!("ioerr:{:?}", e.kind()) }
            })),
            "hseek" if st.readers.contains_key(t[1]) => return Some(block_on(async {
                let off: i128 = t[3].parse().unwrap();
                let sf = match t[2] { "start" => SeekFrom::Start(off as u64), "end" => SeekFrom::End(off as i64), _ => SeekFrom::Current(off as i64) };
                match st.readers.get_mut(t[1]).unwrap().seek(sf).await { Ok(n) => format!("ok:{}", n), Err(e) => format!("ioerr:{:?}", e.kind()) }
            })),
            "hwrite" if st.writers.contains_key(t[1]) => return Some(block_on(async {
                match st.writers.get_mut(t[1]).unwrap().write(&unhex(t[2])).await { Ok(n) => format!("ok:{}", n), Err(e) => format!("ioerr:{:?}", e.kind()) }
            })),
            "hflush" if st.writers.contains_key(t[1]) => return Some(block_on(async {
                match st.writers.get_mut(t[1]).unwrap().flush().await { Ok(()) => "ok".to_string(), Err(e) => format!("ioerr:{:?}", e.kind()) }
            })),
            "hdrop" if st.readers.contains_key(t[1]) || st.writers.contains_key(t[1]) => { st.readers.remove(t[1]); st.writers.remove(t[1]); return Some("ok".into()); }
            _ => {}
        }
        if t.len() < 2 || !has(st, t[1]) { return None; }
        let p = st.paths[t[1]].clone();
        let q = if t.len() > 2 && has(st, t[2]) { Some(st.paths[t[2]].clone()) } else { None };
        Some(block_on(async {
            match t[0] {
                "create_dir" => unit(p.create_dir().await),
                "create_dir_all" => unit(p.create_dir_all().await),
                "remove_file" => unit(p.remove_file().await),
                "remove_dir" => unit(p.remove_dir().await),
                "remove_dir_all" => unit(p.remove_dir_all().await),
                "exists" => b(p.exists().await),
                "is_file" => b(p.is_file().await),
                "is_dir" => b(p.is_dir().await),
                "filename" => format!("ok:{}", hex(p.filename().as_bytes())),
                "is_root" => format!("ok:{}", p.is_root()),
                "metadata" => match p.metadata().await { Ok(m) => format!("ok:{}:{}", if m.file_type == VfsFileType::File { "file" } else { "dir" }, m.len), Err(e) => err(&e) },
                "copy_file" => unit(p.copy_file(q.as_ref().unwrap()).await),
                "move_file" => unit(p.move_file(q.as_ref().unwrap()).await),
                "move_dir" => unit(p.move_dir(q.as_ref().unwrap()).await),
                "copy_dir" => match p.copy_dir(q.as_ref().unwrap()).await { Ok(n) => format!("ok:{}", n), Err(e) => err(&e) },
                "read_to_string" => match p.read_to_string().await { Ok(s) => format!("ok:{}", hex(s.as_bytes())), Err(e) => err(&e) },
                "read_dir" => match p.read_dir().await {
                    Ok(mut it) => { let mut v: Vec<String> = vec![]; while let Some(x) = it.next().await { v.push(hex(x.as_str().as_bytes())); } v.sort(); format!("ok:[{}]", v.join(",")) }
                    Err(e) => err(&e),
                },
                "walk_dir" => match p.walk_dir().await {
                    Ok(it) => {
                        let mut it = Box::pin(it);
                        let base = p.as_str().to_string();
                        let (mut seen, mut items, mut order_ok): (Vec<String>, Vec<String>, bool) = (vec![], vec![], true);
                        while let Some(x) = it.next().await {
                            match x {
                                Ok(v) => { let s = v.as_str().to_string(); let par = v.parent().as_str().to_string(); if par != base && !seen.contains(&par) { order_ok = false; } seen.push(s.clone()); items.push(hex(s.as_bytes())); }
                                Err(e) => items.push(err(&e)),
                            }
                            if items.len() > 10000 { break; }
                        }
                        items.sort();
                        format!("ok:[{}]:order={}", items.join(","), order_ok)
                    }
                    Err(e) => err(&e),
                },
                "write" | "append" => {
                    let data = unhex(t[2]);
                    match if t[0] == "write" { p.create_file().await } else { p.append_file().await } {
                        Ok(mut h) => match h.write_all(&data).await { Ok(()) => { drop(h); "ok".to_string() } Err(e) => format!("ioerr:{:?}", e.kind()) },
                        Err(e) => err(&e),
                    }
                }
                "read" => {
                    let chunk: usize = t[2].parse().unwrap();
                    match p.open_file().await {
                        Ok(mut h) => {
                            let mut got = vec![];
                            loop {
                                let mut buf = vec![0u8; chunk];
                                match h.read(&mut buf).await { Ok(0) => break format!("ok:{}", hex(&got)), Ok(n) => got.extend_from_slice(&buf[..n]), Err(e) => break format!("ioerr:{:?}", e.kind()) }
                                if got.len() > 1 << 20 { break "ok:toolong".to_string(); }
                            }
                        }
                        Err(e) => err(&e),
                    }
                }
                x => panic!("SCRIPT: async op {} not supported", x),
            }
        }))
    }
}

#[cfg(feature = "asyncvfs")]
thread_local! { static ASYNC: std::cell::RefCell<adrv::ASt> = std::cell::RefCell::new(adrv::ASt::default()); }

fn exec(st: &mut St, t: &[&str]) -> String {
    #[cfg(feature = "asyncvfs")]
    {
        if let Some(r) = ASYNC.with(|a| adrv::exec(&mut a.borrow_mut(), t)) {
            return r;
        }
    }
    let p = |st: &St, k: &str| -> VfsPath { st.paths.get(k).unwrap_or_else(|| panic!("SCRIPT: unknown path var {}", k)).clone() };
    match t[0] {
        "fs" => {
            let name = t[1].to_string();
            let root = match t[2] {
                "mem" => VfsPath::new(MemoryFS::new()),
                "wmem" => {
                    let ctl = Arc::new(Mutex::new(Ctl::default()));
                    st.ctls.insert(t[3].to_string(), ctl.clone());
                    VfsPath::new(Wrap { inner: Box::new(MemoryFS::new()), ctl })
                }
                "walt" => {
                    let ctl = Arc::new(Mutex::new(Ctl::default()));
                    st.ctls.insert(t[3].to_string(), ctl.clone());
                    VfsPath::new(Wrap { inner: Box::new(AltrootFS::new(p(st, t[4]))), ctl })
                }
                "phys" => {
                    let d = std::env::temp_dir().join(format!("vfsdrv-{}-{}", std::process::id(), st.tmp.len()));
                    let _ = std::fs::remove_dir_all(&d);
                    std::fs::create_dir_all(&d).unwrap();
                    st.tmp.push(d.clone());
                    st.phys.insert(t[1].to_string(), d.clone());
                    VfsPath::new(PhysicalFS::new(d))
                }
                #[cfg(feature = "embed")]
                "embed" => VfsPath::new(EmbeddedFS::<DynEmbed>::new()),
                #[cfg(feature = "embed")]
                "embed2" => VfsPath::new(EmbeddedFS::<DynEmbed2>::new()),
                "alt" => VfsPath::new(AltrootFS::new(p(st, t[3]))),
                "ovl" => {
                    let layers: Vec<VfsPath> = t[3..].iter().map(|k| p(st, k)).collect();
                    VfsPath::new(OverlayFS::new(&layers))
                }
                x => panic!("SCRIPT: unknown fs kind {}", x),
            };
            st.paths.insert(name, root);
            "ok".into()
        }
        "rawfile" => {
            // directory content found on disk: a file created behind the library's back, name given as raw bytes
            use std::os::unix::ffi::OsStrExt;
            let dir = st.phys.get(t[1]).expect("SCRIPT: rawfile needs a phys root").clone();
            let name = unhex(t[2]);
            std::fs::write(dir.join(std::ffi::OsStr::from_bytes(&name)), b"x").unwrap();
            "ok".into()
        }
        "rawlink" => {
            // a symbolic link whose target does not exist
            use std::os::unix::ffi::OsStrExt;
            let dir = st.phys.get(t[1]).expect("SCRIPT: rawlink needs a phys root").clone();
            let name = unhex(t[2]);
            std::os::unix::fs::symlink("/nonexistent-target-of-a-dangling-link", dir.join(std::ffi::OsStr::from_bytes(&name))).unwrap();
            "ok".into()
        }
        "rawsock" => {
            // a unix socket bound behind the library's back: a directory entry that is neither a file nor a directory
            use std::os::unix::ffi::OsStrExt;
            let dir = st.phys.get(t[1]).expect("SCRIPT: rawsock needs a phys root").clone();
            let name = unhex(t[2]);
            let l = std::os::unix::net::UnixListener::bind(dir.join(std::ffi::OsStr::from_bytes(&name))).unwrap();
            drop(l);          // the socket file stays
            "ok".into()
        }
        "embedfile" | "embedfile2" => {
            let rel = String::from_utf8(unhex(t[1])).unwrap();
            let full = std::path::Path::new(if t[0] == "embedfile" { EMBED_DIR } else { EMBED_DIR2 }).join(rel);
            std::fs::create_dir_all(full.parent().unwrap()).unwrap();
            std::fs::write(full, unhex(t[2])).unwrap();
            "ok".into()
        }
        "arm" => { let mut c = st.ctls[t[1]].lock().unwrap(); let k: usize = t[2].parse().unwrap(); c.fail_at = Some(c.count + k); "ok".into() }
        "disarm" => { st.ctls[t[1]].lock().unwrap().fail_at = None; "ok".into() }
        "log" => { let mut c = st.ctls[t[1]].lock().unwrap(); let s = c.log.join(","); c.log.clear(); format!("ok:{}", if s.is_empty() { "-".into() } else { s }) }
        "join" => match p(st, t[2]).join(String::from_utf8(unhex(t[3])).expect("SCRIPT: join arg utf8")) {
            Ok(v) => { let s = format!("ok:{}", hex(v.as_str().as_bytes())); st.paths.insert(t[1].to_string(), v); s }
            Err(e) => err(&e),
        },
        "parent" => { let v = p(st, t[2]).parent(); let s = format!("ok:{}", hex(v.as_str().as_bytes())); st.paths.insert(t[1].to_string(), v); s }
        "root" => { let v = p(st, t[2]).root(); let s = format!("ok:{}", hex(v.as_str().as_bytes())); st.paths.insert(t[1].to_string(), v); s }
        "filename" => format!("ok:{}", hex(p(st, t[1]).filename().as_bytes())),
        "extension" => match p(st, t[1]).extension() { Some(e) => format!("ok:some:{}", hex(e.as_bytes())), None => "ok:none".into() },
        "is_root" => format!("ok:{}", p(st, t[1]).is_root()),
        "eq" => format!("ok:{}", p(st, t[1]) == p(st, t[2])),
        "create_dir" => unit(p(st, t[1]).create_dir()),
        "create_dir_all" => unit(p(st, t[1]).create_dir_all()),
        "remove_file" => unit(p(st, t[1]).remove_file()),
        "remove_dir" => unit(p(st, t[1]).remove_dir()),
        "remove_dir_all" => unit(p(st, t[1]).remove_dir_all()),
        "copy_file" => unit(p(st, t[1]).copy_file(&p(st, t[2]))),
        "move_file" => unit(p(st, t[1]).move_file(&p(st, t[2]))),
        "move_dir" => unit(p(st, t[1]).move_dir(&p(st, t[2]))),
        "copy_dir" => match p(st, t[1]).copy_dir(&p(st, t[2])) { Ok(n) => format!("ok:{}", n), Err(e) => err(&e) },
        "exists" => match p(st, t[1]).exists() { Ok(b) => format!("ok:{}", b), Err(e) => err(&e) },
        "is_file" => match p(st, t[1]).is_file() { Ok(b) => format!("ok:{}", b), Err(e) => err(&e) },
        "is_dir" => match p(st, t[1]).is_dir() { Ok(b) => format!("ok:{}", b), Err(e) => err(&e) },
        "metadata" => match p(st, t[1]).metadata() {
            Ok(m) => format!("ok:{}:{}", if m.file_type == VfsFileType::File { "file" } else { "dir" }, m.len),
            Err(e) => err(&e),
        },
        "times" => match p(st, t[1]).metadata() {
            Ok(m) => format!("ok:c={},m={},a={}", tsec(m.created), tsec(m.modified), tsec(m.accessed)),
            Err(e) => err(&e),
        },
        "set_time" => {
            let tm = UNIX_EPOCH + Duration::from_secs(t[3].parse().unwrap());
            let v = p(st, t[1]);
            unit(match t[2] { "c" => v.set_creation_time(tm), "m" => v.set_modification_time(tm), _ => v.set_access_time(tm) })
        }
        "read_dir" => match p(st, t[1]).read_dir() {
            Ok(it) => { let mut v: Vec<String> = it.map(|x| hex(x.as_str().as_bytes())).collect(); v.sort(); format!("ok:[{}]", v.join(",")) }
            Err(e) => err(&e),
        },
        "walk_dir" => match p(st, t[1]).walk_dir() {
            Ok(it) => {
                // items sorted (hash order is arbitrary); plus whether every item came after its parent
                let mut seen: Vec<String> = vec![];
                let mut items: Vec<String> = vec![];
                let mut order_ok = true;
                let base = p(st, t[1]).as_str().to_string();
                for x in it {
                    match x {
                        Ok(v) => {
                            let s = v.as_str().to_string();
                            let par = v.parent().as_str().to_string();
                            if par != base && !seen.contains(&par) { order_ok = false; }
                            seen.push(s.clone());
                            items.push(hex(s.as_bytes()));
                        }
                        Err(e) => items.push(err(&e)),
                    }
                }
                items.sort();
                format!("ok:[{}]:order={}", items.join(","), order_ok)
            }
            Err(e) => err(&e),
        },
        "read_to_string" => match p(st, t[1]).read_to_string() { Ok(s) => format!("ok:{}", hex(s.as_bytes())), Err(e) => err(&e) },
        "write" | "append" => {
            let v = p(st, t[1]);
            let data = unhex(t[2]);
            match if t[0] == "write" { v.create_file() } else { v.append_file() } {
                Ok(mut h) => match h.write_all(&data) { Ok(()) => { drop(h); "ok".into() } Err(e) => ioerr(&e) },
                Err(e) => err(&e),
            }
        }
        "read" => {
            // open_file + read to end with the given chunk size
            let chunk: usize = t[2].parse().unwrap();
            match p(st, t[1]).open_file() {
                Ok(mut h) => {
                    let mut got = vec![];
                    loop {
                        let mut buf = vec![0u8; chunk];
                        match h.read(&mut buf) {
                            Ok(0) => break format!("ok:{}", hex(&got)),
                            Ok(n) => got.extend_from_slice(&buf[..n]),
                            Err(e) => break ioerr(&e),
                        }
                        if got.len() > 1 << 20 { break "ok:toolong".into(); }
                    }
                }
                Err(e) => err(&e),
            }
        }
        "hopen" => {
            let v = p(st, t[2]);
            let r = match t[3] {
                "create" => v.create_file().map(Handle::W),
                "append" => v.append_file().map(Handle::W),
                _ => v.open_file().map(Handle::R),
            };
            match r { Ok(h) => { st.handles.insert(t[1].to_string(), h); "ok".into() } Err(e) => err(&e) }
        }
        "hwrite" => match st.handles.get_mut(t[1]) {
            Some(Handle::W(h)) => match h.write(&unhex(t[2])) { Ok(n) => format!("ok:{}", n), Err(e) => ioerr(&e) },
            _ => panic!("SCRIPT: hwrite on non-writer"),
        },
        "hflush" => match st.handles.get_mut(t[1]) {
            Some(Handle::W(h)) => match h.flush() { Ok(()) => "ok".into(), Err(e) => ioerr(&e) },
            _ => panic!("SCRIPT: hflush on non-writer"),
        },
        "hseek" => {
            let off: i128 = t[3].parse().unwrap();
            let sf = match t[2] { "start" => SeekFrom::Start(off as u64), "end" => SeekFrom::End(off as i64), _ => SeekFrom::Current(off as i64) };
            let r = match st.handles.get_mut(t[1]) { Some(Handle::W(h)) => h.seek(sf), Some(Handle::R(h)) => h.seek(sf), None => panic!("SCRIPT: no handle") };
            match r { Ok(n) => format!("ok:{}", n), Err(e) => ioerr(&e) }
        }
        "hread" => match st.handles.get_mut(t[1]) {
            Some(Handle::R(h)) => {
                let n: usize = t[2].parse().unwrap();
                let mut buf = vec![0u8; n];
                match h.read(&mut buf) { Ok(k) => format!("ok:{}:{}", k, hex(&buf[..k.min(n)])), Err(e) => ioerr(&e) }
            }
            _ => panic!("SCRIPT: hread on non-reader"),
        },
        "hreadall" => match st.handles.get_mut(t[1]) {
            Some(Handle::R(h)) => {
                let mut buf = vec![];
                match h.read_to_end(&mut buf) { Ok(k) => format!("ok:{}:{}", k, hex(&buf)), Err(e) => ioerr(&e) }
            }
            _ => panic!("SCRIPT: hreadall on non-reader"),
        },
        "hdrop" => { st.handles.remove(t[1]); "ok".into() }
        "wopen" => match p(st, t[2]).walk_dir() { Ok(w) => { st.walks.insert(t[1].to_string(), w); "ok".into() } Err(e) => err(&e) },
        "wnext" => match st.walks.get_mut(t[1]).expect("SCRIPT: no walk handle").next() {
            None => "ok:none".into(),
            Some(Ok(v)) => format!("ok:some:{}", hex(v.as_str().as_bytes())),
            Some(Err(e)) => err(&e),
        },
        "wdrop" => { st.walks.remove(t[1]); "ok".into() }
        x => panic!("SCRIPT: unknown op {}", x),
    }
}

#[cfg(not(manuel_woelker_rust_vfs_verif))]
fn run_par(_st: &St, _sched: Vec<usize>, _progs: Vec<Vec<(usize, String)>>) -> Vec<(usize, String)> {
    eprintln!("SCRIPT: `par` needs a driver built with --cfg manuel_woelker_rust_vfs_verif");
    std::process::exit(3);
}

#[cfg(manuel_woelker_rust_vfs_verif)]
fn run_par(st: &St, sched: Vec<usize>, progs: Vec<Vec<(usize, String)>>) -> Vec<(usize, String)> {
    vfs::verif_hooks::install(sched);
    let mut results: Vec<(usize, String)> = vec![];
    std::thread::scope(|scope| {
        let mut hs = vec![];
        for (tid, prog) in progs.into_iter().enumerate() {
            let paths = st.paths.clone();
            let ctls = st.ctls.clone();
            hs.push(scope.spawn(move || {
                let mut local = St { phys: HashMap::new(), walks: HashMap::new(), paths, handles: HashMap::new(), ctls, tmp: vec![] };
                let mut res = vec![];
                vfs::verif_hooks::register(tid);
                for (ln, line) in prog {
                    let toks: Vec<&str> = line.split_whitespace().collect();
                    let r = catch_unwind(AssertUnwindSafe(|| exec(&mut local, &toks)));
                    res.push((ln, match r { Ok(s) => s, Err(_) => "panic".to_string() }));
                }
                vfs::verif_hooks::finish();
                res
            }));
        }
        vfs::verif_hooks::start();
        for h in hs { results.extend(h.join().unwrap()); }
    });
    vfs::verif_hooks::uninstall();
    results.sort();
    results
}

fn main() {
    std::panic::set_hook(Box::new(|_| {}));
    let args: Vec<String> = std::env::args().collect();
    let text = std::fs::read_to_string(&args[1]).expect("script file");
    let mut st = St { phys: HashMap::new(), walks: HashMap::new(), paths: HashMap::new(), handles: HashMap::new(), ctls: HashMap::new(), tmp: vec![] };
    if cfg!(feature = "embed") {
        let _ = std::fs::remove_dir_all(EMBED_DIR);
        let _ = std::fs::create_dir_all(EMBED_DIR);
        let _ = std::fs::remove_dir_all(EMBED_DIR2);
        let _ = std::fs::create_dir_all(EMBED_DIR2);
    }
    let mut out = String::new();
    let all_lines: Vec<&str> = text.lines().collect();
    let mut skip_until = 0usize;
    for (i, line) in text.lines().enumerate() {
        if i < skip_until {
            continue;
        }
        let line = line.trim();
        if line.starts_with("par ") {
            // concurrent block: `par <schedule>` / `T<i> <op...>` lines / `endpar`
            let mut j = i + 1;
            let mut progs: Vec<Vec<(usize, String)>> = vec![];
            while j < all_lines.len() && all_lines[j].trim() != "endpar" {
                let l = all_lines[j].trim();
                let (t, rest) = l.split_once(' ').expect("SCRIPT: par line");
                let tid: usize = t[1..].parse().expect("SCRIPT: thread id");
                while progs.len() <= tid { progs.push(vec![]); }
                progs[tid].push((j + 1, rest.to_string()));
                j += 1;
            }
            skip_until = j + 1;
            let sched: Vec<usize> = line[4..].trim().split(',').map(|x| if x == "m" { usize::MAX } else { x.parse().unwrap() }).collect();
            out.push_str(&format!("{} ok\n", i + 1));
            let results = run_par(&st, sched, progs);
            for (ln, r) in results { out.push_str(&format!("{} {}\n", ln, r)); }
            out.push_str(&format!("{} ok\n", j + 1));
            continue;
        }
        if line.is_empty() || line.starts_with('#') {
            if line.starts_with("#!") { out.push_str(line); out.push('\n'); }
            continue;
        }
        if line == "reset" {
            #[cfg(feature = "asyncvfs")]
            ASYNC.with(|a| *a.borrow_mut() = adrv::ASt::default());
            if cfg!(feature = "embed") {
                let _ = std::fs::remove_dir_all(EMBED_DIR);
                let _ = std::fs::create_dir_all(EMBED_DIR);
                let _ = std::fs::remove_dir_all(EMBED_DIR2);
                let _ = std::fs::create_dir_all(EMBED_DIR2);
            }
            st.handles.clear(); st.walks.clear(); st.paths.clear(); st.ctls.clear();
            for d in st.tmp.drain(..) { let _ = std::fs::remove_dir_all(d); }
            out.push_str(&format!("{} reset\n", i + 1));
            continue;
        }
        let toks: Vec<&str> = line.split_whitespace().collect();
        let r = catch_unwind(AssertUnwindSafe(|| exec(&mut st, &toks)));
        match r {
            Ok(s) => out.push_str(&format!("{} {}\n", i + 1, s)),
            Err(e) => {
                let msg = e.downcast_ref::<String>().cloned().or_else(|| e.downcast_ref::<&str>().map(|s| s.to_string())).unwrap_or_default();
                if let Some(v) = msg.strip_prefix("SCRIPT: unknown path var ") {
                    // a variable that an earlier failed line never defined (the engine prints the same)
                    out.push_str(&format!("{} novar:{}\n", i + 1, v));
                    continue;
                }
                if msg.starts_with("SCRIPT:") { eprintln!("line {}: {}", i + 1, msg); std::process::exit(3); }
                out.push_str(&format!("{} panic\n", i + 1));
            }
        }
    }
    st.handles.clear();
    for d in st.tmp.drain(..) { let _ = std::fs::remove_dir_all(d); }
    print!("{}", out);
}
