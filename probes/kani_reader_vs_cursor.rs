// Appended to src/impls/memory.rs of a scratch copy of /repo, then: cargo kani --harness reader_vs_cursor
#[cfg(kani)]
mod kani_probe {
    use super::*;

    fn any_seek() -> SeekFrom {
        let k: u8 = kani::any();
        match k % 3 {
            0 => SeekFrom::Start(kani::any()),
            1 => SeekFrom::Current(kani::any()),
            _ => SeekFrom::End(kani::any()),
        }
    }

    #[kani::proof]
    #[kani::unwind(6)]
    fn reader_vs_cursor() {
        let data: [u8; 3] = kani::any();
        let n: usize = kani::any();
        kani::assume(n <= 3);
        let v: Vec<u8> = data[..n].to_vec();
        let mut r = ReadableFile { content: Arc::new(v.clone()), position: 0 };
        let mut c = Cursor::new(v);
        let mut step = 0;
        while step < 3 {
            if kani::any() {
                let s = any_seek();
                let a = r.seek(s);
                let b = c.seek(s);
                match (a, b) {
                    (Ok(x), Ok(y)) => assert!(x == y),
                    (Err(_), Err(_)) => {}
                    _ => assert!(false),
                }
            } else {
                let k: usize = kani::any();
                kani::assume(k <= 2);
                let mut b1 = [0u8; 2];
                let mut b2 = [0u8; 2];
                let a = r.read(&mut b1[..k]).unwrap();
                let b = c.read(&mut b2[..k]).unwrap();
                assert!(a == b);
                assert!(b1[0] == b2[0] && b1[1] == b2[1]);
            }
            step += 1;
        }
        std::mem::forget(r);
        std::mem::forget(c);
    }
}
