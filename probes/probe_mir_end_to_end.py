#!/usr/bin/env python3
"""Throwaway prototype 2: generic MIR interpreter running VfsPath -> MemoryFS end to end.
Goal: find out how much modelling the real call chains need. Not framework code."""
import re, sys, time, z3

# ---------------------------------------------------------------- parsing
class Fn:
    def __init__(self, name, sig, params, ret, blocks, locals_):
        self.name, self.sig, self.params, self.ret, self.blocks, self.locals = name, sig, params, ret, blocks, locals_

def split_top(s, sep=','):
    out, depth, cur = [], 0, ''
    i = 0
    while i < len(s):
        ch = s[i]
        if ch in '(<[{':
            depth += 1
        elif ch in ')]}':
            depth -= 1
        elif ch == '>' and s[i-1] != '-' and s[i-1] != '=':
            depth -= 1
        if ch == sep and depth == 0:
            out.append(cur.strip()); cur = ''
        else:
            cur += ch
        i += 1
    if cur.strip():
        out.append(cur.strip())
    return out

def parse_mir(text):
    fns, consts = {}, {}
    for m in re.finditer(r'^(fn|const) (.+?) (?:\{|= \{)\n(.*?)^\}', text, re.S | re.M):
        kind, header, body = m.groups()
        blocks = {}
        for bm in re.finditer(r'^    (bb\d+)(?: \(cleanup\))?: \{\n(.*?)^    \}', body, re.S | re.M):
            blocks[bm.group(1)] = [l.strip() for l in bm.group(2).strip().split('\n')]
        locals_ = dict(re.findall(r'let (?:mut )?(_\d+): (.+);', body))
        if kind == 'fn':
            # name up to the parameter list: find the '(' that starts "(_1:" or "()"
            pm = re.search(r'\((_1: |\) -> |\)$)', header)
            name = header[:pm.start()]
            rest = header[pm.start():]
            depth = 0
            for i, ch in enumerate(rest):
                if ch == '(':
                    depth += 1
                elif ch == ')':
                    depth -= 1
                    if depth == 0:
                        break
            plist = rest[1:i]
            ret = rest[i+1:].strip()
            ret = ret[3:].strip() if ret.startswith('->') else '()'
            params = []
            for p in split_top(plist):
                pn, pt = p.split(': ', 1)
                params.append((pn, pt))
            fns.setdefault(name, []).append(Fn(name, header, params, ret, blocks, locals_))
        else:
            consts[re.match(r'(.*promoted\[\d+\])', header).group(1)] = Fn(header, header, [], '', blocks, locals_)
    return fns, consts

# ---------------------------------------------------------------- values
class Adt:
    def __init__(self, name, variant, fields, fnames=None):
        self.name, self.variant, self.fields, self.fnames = name, variant, fields, fnames
    def __repr__(self):
        return f'{self.name}::{self.variant}{self.fields}' if self.variant else f'{self.name}{self.fields}'

class Cell:
    def __init__(self, v=None):
        self.v = v

class Ref:
    def __init__(self, cell, proj=()):
        self.cell, self.proj = cell, proj
    def get(self):
        v = self.cell.v
        for p in self.proj:
            v = v.fields[p]
        return v
    def set(self, nv):
        if not self.proj:
            self.cell.v = nv
            return
        v = self.cell.v
        for p in self.proj[:-1]:
            v = v.fields[p]
        v.fields[self.proj[-1]] = nv
    def __repr__(self):
        return f'&{self.get()!r}'

class S(list):
    def __repr__(self):
        if all(isinstance(b, int) for b in self):
            return 'S' + repr(bytes(self))
        return 'S[' + ','.join(str(b) for b in self) + ']'

class SymMap:
    def __init__(self):
        self.items = []   # list of [key S, value]
    def find(self, ex, k):
        for i, (kk, _) in enumerate(self.items):
            if ex.branch(seq_eq(kk, k)):
                return i
        return None

class PyIter:
    def __init__(self, items):
        self.items = list(items)

class MapIter:
    def __init__(self, inner, clo):
        self.inner, self.clo = inner, clo

class Cursor:
    def __init__(self, data):
        self.data, self.pos = list(data), 0

def lit(bs):
    if isinstance(bs, str):
        bs = bs.encode()
    return S(bs)
def bv8(x):
    return z3.BitVecVal(x, 8) if isinstance(x, int) else x
def beq(a, b):
    if isinstance(a, int) and isinstance(b, int):
        return a == b
    return bv8(a) == bv8(b)
def seq_eq(a, b):
    if len(a) != len(b):
        return False
    cs = [beq(x, y) for x, y in zip(a, b)]
    if any(c is False for c in cs):
        return False
    cs = [c for c in cs if c is not True]
    return z3.And(cs) if cs else True

class Panic(Exception):
    pass
class ForkAt(Exception):
    def __init__(self, feas):
        self.feas = feas
class Unmodelled(Exception):
    pass

ENUMS = {
    'Option': ['None', 'Some'], 'Result': ['Ok', 'Err'], 'ControlFlow': ['Continue', 'Break'],
    'VfsFileType': ['File', 'Directory'],
    'VfsErrorKind': ['IoError', 'FileNotFound', 'InvalidPath', 'Other', 'DirectoryExists', 'FileExists', 'NotSupported'],
    'Entry': ['Occupied', 'Vacant'], 'SeekFrom': ['Start', 'End', 'Current'],
}
def variant_index(adt):
    for vs in ENUMS.values():
        if adt.variant in vs and (adt.name in ENUMS and adt.variant in ENUMS[adt.name] or adt.name not in ENUMS):
            return (ENUMS.get(adt.name) or vs).index(adt.variant)
    raise Unmodelled('variant index ' + repr(adt))

class Exec:
    def __init__(self, fns, consts, solver, decisions):
        self.fns, self.consts, self.solver, self.decisions = fns, consts, solver, decisions
        self.pos, self.pc, self.steps, self.calls = 0, [], 0, {}
        self.nsym = 0

    def fresh(self, pfx, bits=8):
        self.nsym += 1
        return z3.BitVec(f'{pfx}{self.nsym}', bits)

    def branch(self, cond):
        if cond is True or cond is False:
            return cond
        cond = z3.simplify(cond)
        if z3.is_true(cond):
            return True
        if z3.is_false(cond):
            return False
        if self.pos < len(self.decisions):
            d = self.decisions[self.pos]; self.pos += 1
            self.pc.append(cond if d else z3.Not(cond))
            return bool(d)
        feas = []
        for d in (1, 0):
            self.solver.push(); self.solver.add(*self.pc); self.solver.add(cond if d else z3.Not(cond))
            r = self.solver.check(); self.solver.pop()
            if r == z3.sat:
                feas.append(d)
        raise ForkAt(feas)

    # ------------------------------------------------ function resolution
    def resolve(self, callee, args):
        c = callee
        if c in self.fns and len(self.fns[c]) == 1:
            return self.fns[c][0]
        m = re.fullmatch(r'<(.+) as (.+?)>::(\w+)(?:::<.*>)?', c)
        if m:
            ty, trait, meth = m.groups()
        else:
            mm = re.fullmatch(r'(.+?)::(\w+)(?:::<.*>)?', c)
            if not mm:
                return None
            ty, meth, trait = mm.group(1), mm.group(2), None
        ty = ty.split('::')[-1] if '<' not in ty else ty
        if ty.startswith('dyn ') or ty == 'Self':
            v = args[0]
            while isinstance(v, Ref):
                v = v.get()
            ty = v.name.split('::')[-1]
        cands = []
        for name, lst in self.fns.items():
            if not re.search(r'::' + meth + r'$', name) and name != meth:
                continue
            for f in lst:
                ptys = [t for _, t in f.params]
                first = ptys[0] if ptys else ''
                key = re.sub(r'^&(mut )?', '', first).split('::')[-1]
                if meth in ('new', 'from', 'default'):
                    ok = f.ret.split('::')[-1] == ty
                else:
                    ok = key == ty or name.startswith(ty + '::')
                if ok:
                    if trait and meth == 'from':
                        ta = re.search(r'From<(.+)>', trait).group(1).split('::')[-1]
                        if ptys[0].split('::')[-1] != ta:
                            continue
                    cands.append(f)
        if not cands and trait:
            tn = trait.split('<')[0].split('::')[-1]
            if tn + '::' + meth in self.fns:
                return self.fns[tn + '::' + meth][0]
        if len(cands) == 1:
            return cands[0]
        if len(cands) > 1:
            # prefer trait impl bodies named '<impl at' over default bodies
            imp = [f for f in cands if '<impl at' in f.name]
            if len(imp) == 1:
                return imp[0]
            raise Unmodelled(f'ambiguous {callee}: {[f.name for f in cands]}')
        return None

    # ------------------------------------------------ places / operands
    def parse_place(self, fr, p):
        p = p.strip()
        m = re.fullmatch(r'\(\((.+) as (\w+)\)\.(\d+): .+\)', p)
        if m:
            r = self.parse_place(fr, m.group(1))
            return Ref(r.cell, r.proj + (int(m.group(3)),))
        if p.startswith('(*') and p.endswith(')') and self._balanced(p[2:-1]):
            r = self.parse_place(fr, p[2:-1]).get()
            assert isinstance(r, Ref), (p, r)
            return r
        m = re.fullmatch(r'\((.+)\.(\d+): .+\)', p)
        if m and self._balanced(m.group(1)):
            r = self.parse_place(fr, m.group(1))
            return Ref(r.cell, r.proj + (int(m.group(2)),))
        if m:
            # find the split point ".N: " at depth 0 from the right
            inner = p[1:-1]
            depth = 0
            for i in range(len(inner) - 1, -1, -1):
                ch = inner[i]
                if ch in ')>]':
                    depth += 1
                elif ch in '(<[':
                    depth -= 1
                mm = re.match(r'\.(\d+): ', inner[i:])
                if mm and depth == 0 and self._balanced(inner[:i]):
                    r = self.parse_place(fr, inner[:i])
                    return Ref(r.cell, r.proj + (int(mm.group(1)),))
        if re.fullmatch(r'_\d+', p):
            if p not in fr:
                fr[p] = Cell()
            return Ref(fr[p])
        raise Unmodelled('place ' + p)

    @staticmethod
    def _balanced(s):
        d = 0
        for i, ch in enumerate(s):
            if ch in '(':
                d += 1
            elif ch == ')':
                d -= 1
                if d < 0:
                    return False
        return d == 0

    def operand(self, fr, s):
        s = s.strip()
        if s.startswith('no_retag '):
            s = s[9:]
        if s.startswith(('move ', 'copy ')):
            return self.parse_place(fr, s[5:]).get()
        if s.startswith('const '):
            return self.const(s[6:])
        raise Unmodelled('operand ' + s)

    def const(self, c):
        if c in ('true', 'false'):
            return c == 'true'
        if c == '()':
            return Adt('unit', '', [])
        m = re.fullmatch(r'(-?\d+)_(u|i)(size|\d+)', c)
        if m:
            return int(m.group(1))
        m = re.fullmatch(r'"(.*)"', c, re.S)
        if m:
            return lit(m.group(1).encode().decode('unicode_escape').encode('latin1'))
        m = re.fullmatch(r'b"(.*)"', c, re.S)
        if m:
            return lit(m.group(1).encode().decode('unicode_escape').encode('latin1'))
        m = re.fullmatch(r"'(.)'", c)
        if m:
            return ('char', m.group(1))
        m = re.fullmatch(r'ZeroSized: (\{closure@.+\})', c)
        if m:
            return Adt(m.group(1), '', [])
        if 'promoted[' in c:
            suf = '::'.join(c.split('::')[-2:])
            key = [k for k in self.consts if k.endswith('::' + suf) or k == suf]
            return self.run_blocks(self.consts[key[0]], {})
        raise Unmodelled('const ' + c)

    def rvalue(self, fr, rv):
        rv = rv.strip()
        if rv.startswith('no_retag '):
            rv = rv[9:]
        if rv.startswith(('move ', 'copy ', 'const ')):
            m = re.fullmatch(r'((?:move|copy) .+?) as (.+) \((\w+)(\(.*\))?\)', rv)
            if m:
                return self.operand(fr, m.group(1))   # unsize / int cast (prototype: identity)
            return self.operand(fr, rv)
        if rv.startswith('&mut '):
            return self.parse_place(fr, rv[5:])
        if rv.startswith('&raw '):
            raise Unmodelled(rv)
        if rv.startswith('&'):
            return self.parse_place(fr, rv[1:])
        m = re.fullmatch(r'discriminant\((.+)\)', rv)
        if m:
            v = self.parse_place(fr, m.group(1)).get()
            return variant_index(v)
        m = re.fullmatch(r'(Gt|Lt|Ge|Le|Eq|Ne|Add|Sub|BitAnd)\((.+), (.+)\)', rv)
        if m:
            a, b = [self.operand(fr, x) for x in split_top(rv[rv.index('(')+1:-1])]
            op = m.group(1)
            if isinstance(a, bool) or isinstance(b, bool):
                return {'Eq': a == b, 'Ne': a != b}[op]
            return {'Gt': lambda: a > b, 'Lt': lambda: a < b, 'Ge': lambda: a >= b, 'Le': lambda: a <= b,
                    'Eq': lambda: a == b, 'Ne': lambda: a != b, 'Add': lambda: a + b, 'Sub': lambda: a - b,
                    'BitAnd': lambda: a & b}[op]()
        m = re.fullmatch(r'(Add|Sub)WithOverflow\((.+)\)', rv)
        if m:
            a, b = [self.operand(fr, x) for x in split_top(m.group(2))]
            r = a + b if m.group(1) == 'Add' else a - b
            return Adt('tuple', '', [r, (r < 0 or r >= 2**64) if isinstance(r, int) else False])
        m = re.fullmatch(r'Not\((.+)\)', rv)
        if m:
            v = self.operand(fr, m.group(1))
            return (not v) if isinstance(v, bool) else z3.Not(v)
        # enum / struct aggregates
        m = re.fullmatch(r'([\w:]+?)(?:::<.+>)?::(\w+)\((.*)\)', rv)
        if m and m.group(2)[0].isupper():
            return Adt(m.group(1).split('::')[-1], m.group(2), [self.operand(fr, x) for x in split_top(m.group(3))])
        m = re.fullmatch(r'([\w:]+?)(?:::<.+>)?::([A-Z]\w+)', rv)
        if m:
            return Adt(m.group(1).split('::')[-1], m.group(2), [])
        m = re.fullmatch(r'(\{closure@.+?\}|[\w:]+(?:::<.+>)?) \{(.*)\}', rv)
        if m:
            fs = split_top(m.group(2))
            return Adt(m.group(1), '', [self.operand(fr, x.split(': ', 1)[1]) for x in fs], [x.split(': ', 1)[0] for x in fs])
        m = re.fullmatch(r'\((.*)\)', rv)
        if m:
            return Adt('tuple', '', [self.operand(fr, x) for x in split_top(m.group(1))])
        m = re.fullmatch(r'\[(.*)\]', rv)
        if m:
            return [self.operand(fr, x) for x in split_top(m.group(1))]
        raise Unmodelled('rvalue ' + rv)

    # ------------------------------------------------ execution
    def call_closure(self, clo, args):
        key = clo.name[len('{closure@'):-1]
        for name, lst in self.fns.items():
            for f in lst:
                if f.params and key in f.params[0][1] and '{closure#' in name.split('::')[-1]:
                    recv = clo
                    if f.params[0][1].startswith('&'):
                        recv = Ref(Cell(clo))
                    if len(f.params) == 2 and f.params[1][1].startswith('(') and len(args) != 1:
                        args = [Adt('tuple', '', list(args))]
                    return self.run_fn(f, [recv] + list(args))
        raise Unmodelled('closure ' + clo.name)

    def run_fn(self, f, args):
        fr = {}
        assert len(f.params) == len(args), (f.name, len(f.params), len(args))
        for (p, _), v in zip(f.params, args):
            fr[p] = Cell(v)
        self.calls[f.name] = self.calls.get(f.name, 0) + 1
        return self.run_blocks(f, fr)

    def run_blocks(self, f, fr):
        bb = 'bb0'
        while True:
            lines = f.blocks[bb]
            for ln in lines[:-1]:
                self.steps += 1
                if ln.startswith(('StorageLive', 'StorageDead', 'nop', 'FakeRead', 'PlaceMention', 'Retag', '//', 'Coverage')):
                    continue
                m = re.fullmatch(r'(.+?) = (.+);', ln, re.S)
                if not m:
                    raise Unmodelled('stmt ' + ln)
                self.parse_place(fr, m.group(1)).set(self.rvalue(fr, m.group(2)))
            t = lines[-1]
            self.steps += 1
            if t == 'return;':
                return fr['_0'].v if '_0' in fr else Adt('unit', '', [])
            if t == 'unreachable;':
                raise RuntimeError('reached unreachable in ' + f.name)
            m = re.fullmatch(r'goto -> (bb\d+);', t)
            if m:
                bb = m.group(1); continue
            m = re.fullmatch(r'switchInt\((.+)\) -> \[(.+)\];', t)
            if m:
                v = self.operand(fr, m.group(1))
                nxt = None
                for val, tb in [x.strip().split(': ') for x in m.group(2).split(',')]:
                    if val == 'otherwise':
                        nxt = tb; break
                    if isinstance(v, bool) or z3.is_bool(v) if not isinstance(v, int) else False:
                        cond = (v if val != '0' else (not v)) if isinstance(v, bool) else (v if val != '0' else z3.Not(v))
                    else:
                        cond = (v == int(val))
                    if self.branch(cond):
                        nxt = tb; break
                bb = nxt; continue
            m = re.fullmatch(r'drop\((.+)\) -> \[return: (bb\d+), .+\];', t)
            if m:
                v = self.parse_place(fr, m.group(1)).get()
                self.drop_value(v)
                bb = m.group(2); continue
            m = re.fullmatch(r'assert\((!?)(.+?), ".*\) -> \[success: (bb\d+), .+\];', t, re.S)
            if m:
                c = self.operand(fr, m.group(2))
                if m.group(1):
                    c = (not c) if isinstance(c, bool) else z3.Not(c)
                if not self.branch(c):
                    raise Panic(f.name + ': ' + t[:80])
                bb = m.group(3); continue
            m = re.fullmatch(r'(.+?) = (.+\)) -> \[return: (bb\d+), .+\];', t, re.S)
            if m:
                dst, expr, nb = m.groups()
                depth = 0
                for k in range(len(expr) - 1, -1, -1):
                    if expr[k] == ')':
                        depth += 1
                    elif expr[k] == '(':
                        depth -= 1
                        if depth == 0:
                            break
                callee, args = expr[:k], expr[k+1:-1]
                a = [self.operand(fr, x) for x in split_top(args)]
                val = self.call(callee, a)
                self.parse_place(fr, dst).set(val)
                bb = nb; continue
            raise Unmodelled('term ' + t)

    def drop_value(self, v):
        if isinstance(v, Adt) and v.name.endswith('WritableFile'):
            f = self.resolve('<WritableFile as Drop>::drop', [v])
            self.run_fn(f, [Ref(Cell(v))])

    # ------------------------------------------------ calls
    def call(self, c, a):
        f = None
        try:
            f = self.resolve(c, a)
        except Unmodelled:
            raise
        if f is not None and not c.startswith(('<Result<', '<Option<', 'Result::', 'Option::', 'Box::', 'Arc::', 'Vec::', 'HashMap::', '<path::VfsFileType as PartialEq>')):
            return self.run_fn(f, a)
        return self.model(c, a)

    def deref(self, v):
        while isinstance(v, Ref):
            v = v.get()
        return v

    def model(self, c, a):
        base = re.sub(r'::<.*', '', c) if not c.startswith('<') else c
        d = self.deref
        # --- conversions / smart pointers
        if re.fullmatch(r'<(&str|str|String|Arc<str>|&String) as (Into|From|ToString|Deref|AsRef|Clone|Borrow)<?.*>?>::\w+', c) or \
           c in ('<impl AsRef<str> as AsRef<str>>::as_ref', '<impl Into<String> as Into<String>>::into', 'String::as_str'):
            return S(d(a[0]))
        if re.fullmatch(r'<Arc<.+> as (Deref|AsRef<.+>)>::\w+', c) or re.fullmatch(r'<.*Guard<.*> as Deref(Mut)?>::deref(_mut)?', c) or re.fullmatch(r'<Box<.+> as Deref(Mut)?>::deref(_mut)?', c):
            v = d(a[0])
            return Ref(v.cell) if isinstance(v, Adt) and v.name in ('Arc', 'Guard', 'Box') and hasattr(v, 'cell') else a[0]
        if re.fullmatch(r'Box::<.+>::new', c):
            cell = Cell(a[0])
            x = Adt('Box', '', [Adt('Unique', '', [Ref(cell)])]); x.cell = cell
            return x
        if re.fullmatch(r'Arc::<.+>::new', c) or re.fullmatch(r'std::sync::RwLock::<.+>::new', c):
            x = Adt('Arc', '', []); x.cell = Cell(a[0]); x.id = id(x.cell)
            return x
        if re.fullmatch(r'<Arc<.+> as Clone>::clone', c):
            return d(a[0])
        if re.fullmatch(r'Arc::<.+>::ptr_eq', c):
            return d(a[0]).cell is d(a[1]).cell
        if c == '<Arc<Vec<u8>> as Default>::default':
            x = Adt('Arc', '', []); x.cell = Cell(S()); return x
        if re.fullmatch(r'std::sync::RwLock::<.+>::(read|write)', c):
            g = Adt('Guard', '', []); g.cell = d(a[0]).cell if hasattr(d(a[0]), 'cell') else a[0].cell
            return Adt('Result', 'Ok', [g])
        if re.fullmatch(r'(Result|Option)::<.*>::(unwrap|expect)', c, re.S):
            if a[0].variant in ('Err', 'None'):
                raise Panic('unwrap on ' + a[0].variant)
            return a[0].fields[0]
        # --- Try / residual / combinators
        if c.endswith(' as Try>::branch'):
            return Adt('ControlFlow', 'Continue', [a[0].fields[0]]) if a[0].variant == 'Ok' else Adt('ControlFlow', 'Break', [a[0]])
        if '::from_residual' in c:
            e = a[0].fields[0]
            m = re.search(r'FromResidual<Result<Infallible, (.+)>>>', c)
            src = m.group(1)
            tgt = re.match(r'<Result<.*, (\w+)> as', c).group(1)
            if src.split('::')[-1] != tgt:
                conv = self.resolve(f'<{tgt} as From<{src}>>::from', [e])
                if conv is None and src.endswith('VfsErrorKind'):
                    conv = self.resolve('<VfsError as From<VfsErrorKind>>::from', [e])
                e = self.run_fn(conv, [e])
            return Adt('Result', 'Err', [e])
        if c.startswith('<VfsErrorKind as Into<VfsError>>::into'):
            return self.run_fn(self.resolve('<VfsError as From<VfsErrorKind>>::from', a), a)
        m = re.fullmatch(r'(Result|Option)::<.*?>::(map_err|map|ok_or|unwrap_or|unwrap_or_default|unwrap_or_else|is_some|is_none)(::<.*>)?', c, re.S)
        if m:
            k, op = m.group(1), m.group(2)
            v = a[0]
            good = v.variant in ('Ok', 'Some')
            if op == 'map_err':
                return v if good else Adt('Result', 'Err', [self.call_closure(a[1], [v.fields[0]])])
            if op == 'map':
                return Adt(k, v.variant, [self.call_closure(a[1], [v.fields[0]])]) if good else v
            if op == 'ok_or':
                return Adt('Result', 'Ok', [v.fields[0]]) if good else Adt('Result', 'Err', [a[1]])
            if op == 'unwrap_or':
                return v.fields[0] if good else a[1]
            if op == 'unwrap_or_default':
                return v.fields[0] if good else S()
            if op == 'unwrap_or_else':
                return v.fields[0] if good else self.call_closure(a[1], [])
            if op == 'is_some':
                return good
        # --- strings
        if c == 'core::str::<impl str>::is_empty':
            return len(a[0]) == 0
        if c in ('core::str::<impl str>::len', 'String::len'):
            return len(d(a[0]))
        if c == 'core::str::<impl str>::starts_with::<char>':
            return beq(a[0][0], ord(a[1][1])) if a[0] else False
        if c == 'core::str::<impl str>::ends_with::<char>':
            return beq(a[0][-1], ord(a[1][1])) if a[0] else False
        if c == 'core::str::<impl str>::starts_with::<&String>':
            p = d(a[1])
            return seq_eq(a[0][:len(p)], p) if len(a[0]) >= len(p) else False
        if c == 'core::str::<impl str>::contains::<char>':
            cs = [beq(x, ord(a[1][1])) for x in a[0]]
            return any(x is True for x in cs) or (z3.Or([x for x in cs if x is not False]) if any(x is not False for x in cs) else False)
        if c == 'core::str::<impl str>::rfind::<char>':
            for i in range(len(a[0]) - 1, -1, -1):
                if self.branch(beq(a[0][i], ord(a[1][1]))):
                    return Adt('Option', 'Some', [i])
            return Adt('Option', 'None', [])
        if c == 'core::str::<impl str>::find::<char>':
            for i in range(len(a[0])):
                if self.branch(beq(a[0][i], ord(a[1][1]))):
                    return Adt('Option', 'Some', [i])
            return Adt('Option', 'None', [])
        if c == 'core::str::<impl str>::ends_with::<&str>':
            p_ = d(a[1])
            return seq_eq(a[0][len(a[0]) - len(p_):], p_) if len(a[0]) >= len(p_) else False
        if re.fullmatch(r'<\[.+\] as Index<.*>>::index|<Vec<.+> as Index<usize>>::index', c):
            v = d(a[0]); i = a[1]
            if i >= len(v):
                raise Panic('index out of bounds')
            return Ref(ListCell(v, i))
        if 'to_vec' in c or re.fullmatch(r'<Vec<.+> as Clone>::clone', c):
            return list(d(a[0]))
        if re.fullmatch(r'core::slice::<impl \[.+\]>::is_empty', c):
            return len(d(a[0])) == 0
        if c.startswith('HashSet::<String>::'):
            op = re.match(r'HashSet::<String>::(\w+)', c).group(1)
            if op == 'new':
                return SymMap()
            st = d(a[0]); k = d(a[1])
            i = st.find(self, k)
            if op == 'insert':
                if i is None:
                    st.items.append([S(k), True]); return True
                return False
            if op == 'remove':
                if i is None:
                    return False
                st.items.pop(i); return True
        if c == 'core::str::<impl str>::split::<char>':
            parts, cur = [], S()
            for b in a[0]:
                if self.branch(beq(b, ord(a[1][1]))):
                    parts.append(cur); cur = S()
                else:
                    cur.append(b)
            parts.append(cur)
            return PyIter(parts)
        if c.endswith(' as IntoIterator>::into_iter'):
            v = d(a[0]) if isinstance(a[0], Ref) and isinstance(d(a[0]), list) else a[0]
            if isinstance(v, SymMap):
                return PyIter([k for k, _ in v.items])
            if c.startswith('<&Vec<') and isinstance(v, list):
                return PyIter([Ref(ListCell(v, i)) for i in range(len(v))])
            return PyIter(v) if isinstance(v, list) else v
        if c.endswith(' as Iterator>::next'):
            return self.iter_next(d(a[0]))
        if re.fullmatch(r'<&?(str|String) as PartialEq(<.+>)?>::eq', c) or c == '<Arc<str> as PartialEq>::eq':
            return seq_eq(d(a[0]), d(a[1]))
        if c in ('<str as Index<RangeTo<usize>>>::index', '<String as Index<RangeTo<usize>>>::index'):
            e = a[1].fields[0]
            if e > len(d(a[0])):
                raise Panic('str slice end out of range')
            return S(d(a[0])[:e])
        if c in ('<str as Index<std::ops::RangeFrom<usize>>>::index', '<String as Index<std::ops::RangeFrom<usize>>>::index'):
            s0 = a[1].fields[0]
            if s0 > len(d(a[0])):
                raise Panic('str slice start out of range')
            return S(d(a[0])[s0:])
        if c == '<String as AddAssign<&str>>::add_assign':
            a[0].set(S(a[0].get() + a[1])); return Adt('unit', '', [])
        # --- fmt
        if c.startswith('core::fmt::rt::Argument::<\'_>::new_display'):
            return S(d(a[0]))
        if c.startswith("Arguments::<'_>::new::<"):
            tpl, args = a[0], d(a[1])
            out, i, ai = S(), 0, 0
            while True:
                b = tpl[i]
                if b == 0:
                    break
                if b == 0xC0:
                    out += args[ai]; ai += 1; i += 1
                elif b < 0x80:
                    out += tpl[i+1:i+1+b]; i += 1 + b
                else:
                    raise Unmodelled('fmt template byte %x' % b)
            return out
        if c == "Arguments::<'_>::from_str":
            return S(a[0])
        if c in ('format', 'must_use::<String>'):
            return a[0]
        if c == '<C as ToString>::to_string':
            return S(d(a[0]))
        if re.fullmatch(r'<F as FnOnce<\(\)>>::call_once', c):
            return self.call_closure(a[0], [])
        # --- Vec / containers
        if re.fullmatch(r'Vec::<.+>::new', c):
            return S() if 'u8' in c else []
        if re.fullmatch(r'Vec::<.+>::(len)', c):
            return len(d(a[0]))
        if re.fullmatch(r'Vec::<.+>::is_empty', c):
            return len(d(a[0])) == 0
        if re.fullmatch(r'Vec::<.+>::push', c):
            d(a[0]).append(a[1]); return Adt('unit', '', [])
        if re.fullmatch(r'Vec::<.+>::truncate', c):
            del d(a[0])[a[1]:]; return Adt('unit', '', [])
        if re.fullmatch(r'<Vec<u8> as Clone>::clone', c):
            return S(d(a[0]))
        if c == 'HashMap::<String, MemoryFile>::new':
            return SymMap()
        if c.startswith('HashMap::<String, MemoryFile>::'):
            mp, op = d(a[0]), re.match(r'HashMap::<String, MemoryFile>::(\w+)', c).group(1)
            if op == 'iter':
                return PyIter([Adt('tuple', '', [Ref(Cell(k)), Ref(Cell(v))]) for k, v in mp.items])
            k = d(a[1])
            i = mp.find(self, k)
            if op == 'insert':
                if i is None:
                    mp.items.append([S(k), a[2]]); return Adt('Option', 'None', [])
                old = mp.items[i][1]; mp.items[i][1] = a[2]; return Adt('Option', 'Some', [old])
            if op == 'contains_key':
                return i is not None
            if op in ('get', 'get_mut'):
                if i is None:
                    return Adt('Option', 'None', [])
                cell = Cell(None)
                # a reference into the map: emulate with a proxy cell that writes through
                class MapRef(Ref):
                    def __init__(s):
                        s.cell, s.proj = None, ()
                    def get(s):
                        return mp.items[i][1]
                    def set(s, nv):
                        mp.items[i][1] = nv
                r = MapRef()
                class PR(Ref):
                    def __init__(s, proj):
                        s.proj = proj
                    def get(s):
                        v = mp.items[i][1]
                        for p in s.proj:
                            v = v.fields[p]
                        return v
                    def set(s, nv):
                        v = mp.items[i][1]
                        for p in s.proj[:-1]:
                            v = v.fields[p]
                        v.fields[s.proj[-1]] = nv
                    @property
                    def cell(s):
                        return PRCell(s)
                return Adt('Option', 'Some', [Ref(MapCell(mp, i))])
            if op == 'remove':
                if i is None:
                    return Adt('Option', 'None', [])
                return Adt('Option', 'Some', [mp.items.pop(i)[1]])
            if op == 'entry':
                if i is None:
                    return Adt('Entry', 'Vacant', [Adt('VacantEntry', '', [])])
                return Adt('Entry', 'Occupied', [Adt('OccupiedEntry', '', [Ref(MapCell(mp, i))])])
        if c.startswith('std::collections::hash_map::OccupiedEntry::') and c.endswith('::get'):
            return d(a[0]).fields[0] if isinstance(d(a[0]).fields[0], Ref) else a[0]
        if '::filter_map::<' in c:
            out = []
            it = d(a[0])
            for item in it.items:
                r = self.call_closure(a[1], [item])
                if r.variant == 'Some':
                    out.append(r.fields[0])
            return PyIter(out)
        if '::collect::<Vec<String>>' in c:
            return list(d(a[0]).items)
        if '>::map::<' in c and ' as Iterator>' in c:
            return MapIter(d(a[0]), a[1])
        if c in ('<path::VfsFileType as PartialEq>::ne', '<path::VfsFileType as PartialEq>::eq'):
            r = d(a[0]).variant == d(a[1]).variant
            return r if c.endswith('eq') else not r
        if c == 'SystemTime::now':
            return self.fresh('now', 64)
        # --- io
        if c == 'std::io::Cursor::<Vec<u8>>::new':
            return Cursor(a[0])
        if c == '<std::io::Cursor<Vec<u8>> as std::io::Write>::write':
            cur, buf = d(a[0]), d(a[1])
            assert cur.pos <= len(cur.data)
            cur.data[cur.pos:cur.pos+len(buf)] = list(buf); cur.pos += len(buf)
            return Adt('Result', 'Ok', [len(buf)])
        if c == '<std::io::Cursor<Vec<u8>> as std::io::Write>::flush':
            return Adt('Result', 'Ok', [Adt('unit', '', [])])
        if c in ('std::io::Cursor::<Vec<u8>>::get_ref', 'std::io::Cursor::<Vec<u8>>::get_mut'):
            cur = d(a[0])
            return Ref(CursorCell(cur))
        if c == 'std::mem::swap::<Vec<u8>>':
            x, y = a[0].get(), a[1].get(); a[0].set(y); a[1].set(x); return Adt('unit', '', [])
        if c == 'std::cmp::min::<usize>':
            return min(a[0], a[1])
        if c == '<std::io::Cursor<Vec<u8>> as Seek>::seek':
            cur = d(a[0]); sf = a[1]
            if sf.variant == 'End' and sf.fields[0] == 0:
                cur.pos = len(cur.data); return Adt('Result', 'Ok', [cur.pos])
            raise Unmodelled('cursor seek')
        raise Unmodelled('call ' + c)

    def iter_next(self, it):
        if isinstance(it, PyIter):
            if not it.items:
                return Adt('Option', 'None', [])
            return Adt('Option', 'Some', [it.items.pop(0)])
        if isinstance(it, MapIter):
            r = self.iter_next(self.deref(it.inner))
            if r.variant == 'None':
                return r
            return Adt('Option', 'Some', [self.call_closure(it.clo, [r.fields[0]])])
        if isinstance(it, Adt) and hasattr(it, 'cell'):
            return self.iter_next(it.cell.v)
        raise Unmodelled('next on ' + repr(it))

class MapCell:
    def __init__(self, mp, i):
        self.mp, self.i = mp, i
    @property
    def v(self):
        return self.mp.items[self.i][1]
    @v.setter
    def v(self, nv):
        self.mp.items[self.i][1] = nv

class ListCell:
    def __init__(self, lst, i):
        self.lst, self.i = lst, i
    @property
    def v(self):
        return self.lst[self.i]
    @v.setter
    def v(self, nv):
        self.lst[self.i] = nv

class CursorCell:
    def __init__(self, cur):
        self.cur = cur
    @property
    def v(self):
        return S(self.cur.data)
    @v.setter
    def v(self, nv):
        self.cur.data = list(nv)

# ---------------------------------------------------------------- scenario
def scenario(ex):
    F = lambda n, a: ex.run_fn(ex.resolve(n, a), a)
    memfs = F('MemoryFS::new', [])
    root = F('path::VfsPath::new', [memfs])
    log = []
    def P(base, s):
        r = F('path::VfsPath::join', [Ref(Cell(base)), lit(s)])
        assert r.variant == 'Ok', r
        return r.fields[0]
    def show(label, r):
        if isinstance(r, Adt) and r.variant == 'Err':
            e = r.fields[0]
            log.append(f'{label}: Err(kind={e.fields[1].variant} path={e.fields[0]!r})')
        else:
            log.append(f'{label}: {r!r}')
    a = P(root, 'a')
    show('create_dir /a', F('path::VfsPath::create_dir', [Ref(Cell(a))]))
    show('create_dir /a again', F('path::VfsPath::create_dir', [Ref(Cell(a))]))
    show('exists /a', F('path::VfsPath::exists', [Ref(Cell(a))]))
    f = P(a, 'f')
    w = F('path::VfsPath::create_file', [Ref(Cell(f))])
    assert w.variant == 'Ok', w
    wf = w.fields[0]
    b0, b1 = ex.fresh('w'), ex.fresh('w')
    wr = ex.resolve('<WritableFile as std::io::Write>::write', [wf])
    show('write 2 sym bytes', ex.run_fn(wr, [Ref(wf.cell), S([b0, b1])]))
    ex.drop_value(wf.cell.v)
    show('metadata /a/f', F('path::VfsPath::metadata', [Ref(Cell(f))]))
    show('read_dir /', [x for x in iter_all(ex, F('path::VfsPath::read_dir', [Ref(Cell(root))]))])
    show('remove_file /a (a directory!)', F('path::VfsPath::remove_file', [Ref(Cell(a))]))
    show('exists /a', F('path::VfsPath::exists', [Ref(Cell(a))]))
    show('exists /a/f (orphan?)', F('path::VfsPath::exists', [Ref(Cell(f))]))
    show('create_dir /x/y', F('path::VfsPath::create_dir', [Ref(Cell(P(root, 'x/y')))]))
    return log

def iter_all(ex, r):
    if r.variant != 'Ok':
        return [r]
    out = []
    it = r.fields[0]
    while True:
        n = ex.iter_next(ex.deref(it))
        if n.variant == 'None':
            return out
        out.append(n.fields[0].fields[0])

def scenario_overlay(ex):
    F = lambda n, a: ex.run_fn(ex.resolve(n, a), a)
    log = []
    def P(base, s):
        r = F('path::VfsPath::join', [Ref(Cell(base)), lit(s)])
        assert r.variant == 'Ok', r
        return r.fields[0]
    def show(label, r):
        if isinstance(r, Adt) and r.variant == 'Err':
            e = r.fields[0]
            log.append(f'{label}: Err(kind={e.fields[1].variant} path={e.fields[0]!r})')
        else:
            log.append(f'{label}: {r!r}')
    lower = F('path::VfsPath::new', [F('MemoryFS::new', [])])
    upper = F('path::VfsPath::new', [F('MemoryFS::new', [])])
    show('lower create_dir_all foo/bar', F('path::VfsPath::create_dir_all', [Ref(Cell(P(lower, 'foo/bar')))]))
    w = F('path::VfsPath::create_file', [Ref(Cell(P(lower, 'foo/bar/x')))]).fields[0]
    ex.run_fn(ex.resolve('<WritableFile as std::io::Write>::write', [w]), [Ref(w.cell), S([ex.fresh('w')])])
    ex.drop_value(w.cell.v)
    ov = F('OverlayFS::new', [[upper, lower]])
    root = F('path::VfsPath::new', [ov])
    s0 = ex.steps
    show('ov create_dir /foo (lower-only dir)', F('path::VfsPath::create_dir', [Ref(Cell(P(root, 'foo')))]))
    s1 = ex.steps
    show('ov remove_dir /foo/bar (non-empty lower dir)', F('path::VfsPath::remove_dir', [Ref(Cell(P(root, 'foo/bar')))]))
    show('ov exists /foo/bar', F('path::VfsPath::exists', [Ref(Cell(P(root, 'foo/bar')))]))
    show('ov exists /foo/bar/x', F('path::VfsPath::exists', [Ref(Cell(P(root, 'foo/bar/x')))]))
    show('ov read_dir /', [x for x in iter_all(ex, F('path::VfsPath::read_dir', [Ref(Cell(root))]))])
    log.append(f'steps for one overlay create_dir: {s1 - s0}')
    return log

if __name__ == '__main__':
    fns, consts = parse_mir(open(sys.argv[1]).read())
    t = time.time()
    ex = Exec(fns, consts, z3.Solver(), [])
    try:
        log = scenario(ex) if len(sys.argv) < 3 else scenario_overlay(ex)
        print('\n'.join(log))
    except Unmodelled as u:
        print('UNMODELLED', u)
        raise
    print(f'steps={ex.steps} fns_executed={len(ex.calls)} time={time.time()-t:.2f}s')
