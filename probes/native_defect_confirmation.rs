use std::io::{Read, Seek, SeekFrom, Write};
use vfs::*;
use std::panic::catch_unwind;

#[derive(rust_embed::RustEmbed, Debug)]
#[folder = "/repo/test/test_directory"]
struct Emb;

fn show<T: std::fmt::Debug>(label: &str, r: VfsResult<T>) {
    match r {
        Ok(v) => println!("{label}: Ok({v:?})"),
        Err(e) => println!("{label}: Err(kind={:?} path={:?})", e.kind(), e.path()),
    }
}
fn main() {
    std::panic::set_hook(Box::new(|_| {}));
    let root: VfsPath = MemoryFS::new().into();
    root.join("d").unwrap().create_dir().unwrap();
    root.join("d/c").unwrap().create_file().unwrap().write_all(b"xy").unwrap();
    root.join("f").unwrap().create_file().unwrap().write_all(b"abc").unwrap();
    show("D1 remove_file(dir)", root.join("d").unwrap().remove_file());
    show("D1 orphan exists(d/c)", root.join("d/c").unwrap().exists());
    show("D1 exists(d)", root.join("d").unwrap().exists());
    show("D2 remove_dir(file)", root.join("f").unwrap().remove_dir());
    let root: VfsPath = MemoryFS::new().into();
    root.join("d").unwrap().create_dir().unwrap();
    root.join("d/c").unwrap().create_file().unwrap().write_all(b"xy").unwrap();
    show("D3 create_file(dir)", root.join("d").unwrap().create_file().map(|_| ()));
    show("D3 is_file(d)", root.join("d").unwrap().is_file());
    show("D3 exists(d/c)", root.join("d/c").unwrap().exists());
    let root: VfsPath = MemoryFS::new().into();
    root.join("d").unwrap().create_dir().unwrap();
    show("D4 append_file(dir)", root.join("d").unwrap().append_file().map(|_| ()));
    show("D4 is_file(d) after", root.join("d").unwrap().is_file());
    root.join("f").unwrap().create_file().unwrap().write_all(b"abc").unwrap();
    show("D5 read_dir(file)", root.join("f").unwrap().read_dir().map(|i| i.count()));
    // D6/D7 reader
    let r = catch_unwind(|| {
        let root: VfsPath = MemoryFS::new().into();
        root.join("f").unwrap().create_file().unwrap().write_all(b"abc").unwrap();
        let mut h = root.join("f").unwrap().open_file().unwrap();
        h.seek(SeekFrom::Start(10)).unwrap();
        let mut b = [0u8; 2];
        h.read(&mut b)
    });
    println!("D6 seek past end then read: {:?}", r.map(|x| x.map_err(|e| e.to_string())).map_err(|_| "PANIC"));
    let r = catch_unwind(|| {
        let root: VfsPath = MemoryFS::new().into();
        root.join("f").unwrap().create_file().unwrap().write_all(b"abc").unwrap();
        let mut h = root.join("f").unwrap().open_file().unwrap();
        h.seek(SeekFrom::Current(-1)).map_err(|e| e.to_string())
    });
    println!("D7 seek Current(-1) at 0: {:?}", r.map_err(|_| "PANIC"));
    let r = catch_unwind(|| {
        let root: VfsPath = MemoryFS::new().into();
        root.join("f").unwrap().create_file().unwrap().write_all(b"abc").unwrap();
        let mut h = root.join("f").unwrap().open_file().unwrap();
        h.seek(SeekFrom::End(-5)).map_err(|e| e.to_string())
    });
    println!("D7 seek End(-5): {:?}", r.map_err(|_| "PANIC"));
    // overlay
    let lower: VfsPath = MemoryFS::new().into();
    let upper: VfsPath = MemoryFS::new().into();
    lower.join("foo/bar").unwrap().create_dir_all().unwrap();
    lower.join("foo/bar/x").unwrap().create_file().unwrap().write_all(b"L").unwrap();
    lower.join("lf").unwrap().create_file().unwrap().write_all(b"L").unwrap();
    let ov: VfsPath = OverlayFS::new(&[upper.clone(), lower.clone()]).into();
    show("D22 overlay create_dir over lower-only dir", ov.join("foo").unwrap().create_dir());
    show("D22 overlay create_dir over lower-only file", ov.join("lf").unwrap().create_dir());
    show("D19 overlay remove_dir(non-empty lower dir foo/bar)", ov.join("foo/bar").unwrap().remove_dir());
    show("D19 exists(foo/bar)", ov.join("foo/bar").unwrap().exists());
    show("D19 exists(foo/bar/x) (child of removed dir)", ov.join("foo/bar/x").unwrap().exists());
    show("D21 overlay root listing", ov.read_dir().map(|i| { let mut v: Vec<_> = i.map(|p| p.as_str().to_string()).collect(); v.sort(); v }));
    show("D21 exists(/.whiteout)", ov.join(".whiteout").unwrap().exists());
    show("D26 overlay set_modification_time on lower-only file", ov.join("lf").unwrap().set_modification_time(std::time::SystemTime::UNIX_EPOCH));
    let before = lower.join("lf").unwrap().metadata().unwrap().accessed;
    let _ = ov.join("lf").unwrap().open_file();
    println!("C08 atime of lower changed by overlay open_file: {}", before != lower.join("lf").unwrap().metadata().unwrap().accessed);
    // embedded root
    let e: VfsPath = EmbeddedFS::<Emb>::new().into();
    let r = catch_unwind(std::panic::AssertUnwindSafe(|| e.open_file().map(|_| ()).map_err(|e| format!("{:?}", e.kind()))));
    println!("D32 embedded root open_file: {:?}", r.map_err(|_| "PANIC"));
    let r = catch_unwind(std::panic::AssertUnwindSafe(|| e.read_to_string().map_err(|e| format!("{:?}", e.kind()))));
    println!("D32 embedded root read_to_string: {:?}", r.map_err(|_| "PANIC"));
    show("emb root metadata", e.metadata().map(|m| m.file_type));
    show("emb root read_dir", e.read_dir().map(|i| i.count()));
    // root ops
    let root: VfsPath = MemoryFS::new().into();
    show("append_file(root)", root.append_file().map(|_| ()));
    show("root is_dir after append handle dropped", root.is_dir());
    // copy_file dest exists error path
    let root: VfsPath = MemoryFS::new().into();
    root.join("a").unwrap().create_file().unwrap();
    root.join("b").unwrap().create_file().unwrap();
    show("copy_file dest exists", root.join("a").unwrap().copy_file(&root.join("b").unwrap()));
    show("join trailing slash", root.join("x/").map(|p| p.as_str().to_string()));
    show("create_dir missing parent", root.join("q/r").unwrap().create_dir());
    show("create_dir under file", root.join("a/r").unwrap().create_dir());
    show("create_dir_all under file", root.join("a/r").unwrap().create_dir_all());
}
