#!/usr/bin/env python3
"""Throwaway prototype: symbolic execution of rustc MIR text (join_internal) with z3 Seq(BV8) strings.
Re-execution forking: every path is replayed from the start following a decision prefix."""
import re, sys, time, z3

B8 = z3.BitVecSort(8)
SEQ = z3.SeqSort(B8)

def lit(bs):
    if isinstance(bs, str):
        bs = bs.encode()
    if len(bs) == 0:
        return z3.Empty(SEQ)
    us = [z3.Unit(z3.BitVecVal(b, 8)) for b in bs]
    return us[0] if len(us) == 1 else z3.Concat(*us)

# ---------------------------------------------------------------- parsing
class Fn:
    def __init__(self, name, params, blocks):
        self.name, self.params, self.blocks = name, params, blocks

def parse_mir(text):
    fns = {}
    consts = {}
    for m in re.finditer(r'^(fn|const) (.+?) (?:\{|= \{)\n(.*?)^\}', text, re.S | re.M):
        kind, header, body = m.groups()
        blocks = {}
        for bm in re.finditer(r'^    (bb\d+)(?: \(cleanup\))?: \{\n(.*?)^    \}', body, re.S | re.M):
            lines = [l.strip() for l in bm.group(2).strip().split('\n')]
            blocks[bm.group(1)] = lines
        if kind == 'fn':
            name = header[:header.index('(')]
            params = re.findall(r'(_\d+): ', header[header.index('('):])
            fns[name] = Fn(name, params, blocks)
        else:
            name = header.split(': ')[0]
            consts[name] = Fn(name, [], blocks)
    return fns, consts

# ---------------------------------------------------------------- values
class Adt:
    def __init__(self, name, variant, fields):
        self.name, self.variant, self.fields = name, variant, fields
    def __repr__(self):
        return f'{self.name}::{self.variant}{self.fields}'

class Cell:
    def __init__(self, v=None):
        self.v = v

class Ref:
    def __init__(self, cell, proj=()):
        self.cell, self.proj = cell, proj
    def get(self):
        v = self.cell.v
        for p in self.proj:
            v = v.fields[p]
        return v
    def set(self, nv):
        if not self.proj:
            self.cell.v = nv
            return
        v = self.cell.v
        for p in self.proj[:-1]:
            v = v.fields[p]
        v.fields[self.proj[-1]] = nv

class SplitIter:
    def __init__(self, s):
        self.rest, self.done = s, False

class Panic(Exception):
    pass
class Infeasible(Exception):
    pass
class NeedFork(Exception):
    pass

class Exec:
    def __init__(self, fns, consts, solver, decisions):
        self.fns, self.consts, self.solver = fns, consts, solver
        self.decisions = decisions      # list of ints, consumed in order
        self.pos = 0
        self.pc = []                    # path condition
        self.nforks = 0

    # --- forking on a symbolic boolean
    def branch(self, cond):
        cond = z3.simplify(cond)
        if z3.is_true(cond):
            return True
        if z3.is_false(cond):
            return False
        if self.pos < len(self.decisions):
            d = self.decisions[self.pos]
            self.pos += 1
            self.pc.append(cond if d else z3.Not(cond))
            return bool(d)
        # new decision point: check feasibility of both sides
        feas = []
        for d in (1, 0):
            self.solver.push()
            self.solver.add(*self.pc)
            self.solver.add(cond if d else z3.Not(cond))
            _t=time.time(); r = self.solver.check(); _d=time.time()-_t
            if _d>2: print('slow branch query %.1fs'%_d, cond, file=sys.stderr)
            self.solver.pop()
            if r == z3.unknown:
                raise RuntimeError('solver unknown')
            if r == z3.sat:
                feas.append(d)
        raise ForkAt(feas)

    # --- operands
    def operand(self, fr, s):
        s = s.strip()
        if s.startswith('move ') or s.startswith('copy '):
            return self.place_get(fr, s[5:])
        if s.startswith('const '):
            return self.const(s[6:])
        raise NotImplementedError('operand ' + s)

    def const(self, c):
        if c in ('true', 'false'):
            return z3.BoolVal(c == 'true')
        m = re.fullmatch(r'(-?\d+)_(u|i)(size|\d+)', c)
        if m:
            return z3.IntVal(int(m.group(1)))
        m = re.fullmatch(r'"(.*)"', c)
        if m:
            return lit(m.group(1))
        m = re.fullmatch(r"'(.)'", c)
        if m:
            return ('char', m.group(1))
        if 'promoted[' in c:
            name = c.replace('<Self as path::PathLike>', 'PathLike')
            f = self.consts[name]
            fr = {}
            v = self.run_blocks(f, fr)
            return v
        raise NotImplementedError('const ' + c)

    def parse_place(self, fr, p):
        p = p.strip()
        # ((_19 as Some).0: &str)   (_37.1: bool)   (*_1)   _5
        m = re.fullmatch(r'\(\((.+) as (\w+)\)\.(\d+): .+\)', p)
        if m:
            r = self.parse_place(fr, m.group(1))
            return Ref(r.cell, r.proj + (int(m.group(3)),))
        m = re.fullmatch(r'\((.+)\.(\d+): .+\)', p)
        if m:
            r = self.parse_place(fr, m.group(1))
            return Ref(r.cell, r.proj + (int(m.group(2)),))
        m = re.fullmatch(r'\(\*(.+)\)', p)
        if m:
            r = self.parse_place(fr, m.group(1)).get()
            assert isinstance(r, Ref), p
            return r
        if re.fullmatch(r'_\d+', p):
            if p not in fr:
                fr[p] = Cell()
            return Ref(fr[p])
        raise NotImplementedError('place ' + p)

    def place_get(self, fr, p):
        return self.parse_place(fr, p).get()

    # --- rvalues
    def rvalue(self, fr, rv):
        rv = rv.strip()
        if rv.startswith('no_retag '):
            rv = rv[9:]
        if rv.startswith(('move ', 'copy ', 'const ')):
            return self.operand(fr, rv)
        if rv.startswith('&mut '):
            return self.parse_place(fr, rv[5:])
        if rv.startswith('&'):
            return self.parse_place(fr, rv[1:])
        m = re.fullmatch(r'discriminant\((.+)\)', rv)
        if m:
            v = self.place_get(fr, m.group(1))
            return z3.IntVal({'None': 0, 'Some': 1, 'Ok': 0, 'Err': 1}[v.variant])
        m = re.fullmatch(r'(Gt|Lt|Ge|Le|Eq|Ne)\((.+), (.+)\)', rv)
        if m:
            a, b = self.operand(fr, m.group(2)), self.operand(fr, m.group(3))
            return {'Gt': a > b, 'Lt': a < b, 'Ge': a >= b, 'Le': a <= b, 'Eq': a == b, 'Ne': a != b}[m.group(1)]
        m = re.fullmatch(r'SubWithOverflow\((.+), (.+)\)', rv)
        if m:
            a, b = self.operand(fr, m.group(1)), self.operand(fr, m.group(2))
            return Adt('tuple', '', [a - b, a < b])
        m = re.fullmatch(r'(?:Result|Option)::<.+>::(Ok|Err|Some)\((.+)\)', rv)
        if m:
            return Adt('enum', m.group(1), [self.operand(fr, m.group(2))])
        m = re.fullmatch(r'Option::<.+>::None', rv)
        if m:
            return Adt('enum', 'None', [])
        m = re.fullmatch(r'VfsErrorKind::(\w+)', rv)
        if m:
            return Adt('VfsErrorKind', m.group(1), [])
        raise NotImplementedError('rvalue ' + rv)

    # --- std models
    def call(self, fr, callee, args):
        a = [self.operand(fr, x) for x in args]
        c = callee
        if c == 'core::str::<impl str>::is_empty':
            return z3.Length(a[0]) == 0
        if c == 'core::str::<impl str>::len':
            return z3.Length(a[0])
        if c in ('<str as ToString>::to_string', '<String as Deref>::deref'):
            v = a[0].get() if isinstance(a[0], Ref) else a[0]
            return v
        if c == 'core::str::<impl str>::starts_with::<char>':
            return z3.PrefixOf(lit(a[1][1]), a[0])
        if c == 'core::str::<impl str>::ends_with::<char>':
            return z3.SuffixOf(lit(a[1][1]), a[0])
        if c == 'Vec::<&str>::new':
            return []
        if c == 'core::str::<impl str>::split::<char>':
            return SplitIter(a[0])
        if c.endswith('as IntoIterator>::into_iter'):
            return a[0]
        if c == "<std::str::Split<'_, char> as Iterator>::next":
            it = a[0].get()
            if it.done:
                return Adt('enum', 'None', [])
            idx = z3.IndexOf(it.rest, lit('/'), 0)
            if self.branch(idx < 0):
                it.done = True
                return Adt('enum', 'Some', [it.rest])
            head = z3.SubSeq(it.rest, 0, idx)
            it.rest = z3.SubSeq(it.rest, idx + 1, z3.Length(it.rest) - idx - 1)
            return Adt('enum', 'Some', [head])
        if c == '<&str as PartialEq>::eq':
            return a[0].get() == a[1].get()
        if c == 'Vec::<&str>::is_empty':
            return z3.BoolVal(len(a[0].get()) == 0)
        if c == 'Vec::<&str>::len':
            return z3.IntVal(len(a[0].get()))
        if c == 'Vec::<&str>::truncate':
            n = z3.simplify(a[1]).as_long()
            del a[0].get()[n:]
            return None
        if c == 'Vec::<&str>::push':
            a[0].get().append(a[1])
            return None
        if c == "<std::vec::IntoIter<&str> as Iterator>::next":
            v = a[0].get()
            if not v:
                return Adt('enum', 'None', [])
            return Adt('enum', 'Some', [v.pop(0)])
        if c == '<String as AddAssign<&str>>::add_assign':
            a[0].set(z3.Concat(a[0].get(), a[1]))
            return None
        if c == '<VfsError as From<VfsErrorKind>>::from':
            return Adt('VfsError', '', [lit('PATH NOT FILLED BY VFS LAYER'), a[0]])
        if c == 'VfsError::with_path::<&str>':
            a[0].fields[0] = a[1]
            return a[0]
        if c == '<Self as PathLike>::parent_internal':
            return self.run_fn('PathLike::parent_internal', a)
        if c == 'core::str::<impl str>::rfind::<char>':
            i = z3.LastIndexOf(a[0], lit(a[1][1]))
            if self.branch(i < 0):
                return Adt('enum', 'None', [])
            return Adt('enum', 'Some', [i])
        m = re.fullmatch(r'Option::<usize>::map::<String, \{closure@(.+)\}>', c)
        if m:
            if a[0].variant == 'None':
                return Adt('enum', 'None', [])
            clo = [n for n in self.fns if n.endswith('parent_internal::{closure#0}')][0]
            return Adt('enum', 'Some', [self.run_fn(clo, [a[1], a[0].fields[0]])])
        if c == 'Option::<String>::unwrap_or_default':
            return a[0].fields[0] if a[0].variant == 'Some' else lit('')
        if c == '<str as Index<RangeTo<usize>>>::index':
            rng = a[1]
            end = rng.fields[0]
            # char-boundary / bounds panic check
            if self.branch(z3.Or(end < 0, end > z3.Length(a[0]))):
                raise Panic('slice index out of range')
            return z3.SubSeq(a[0], 0, end)
        raise NotImplementedError('call ' + c)

    def run_fn(self, name, args):
        f = self.fns[name]
        fr = {}
        for p, v in zip(f.params, args):
            fr[p] = Cell(v)
        return self.run_blocks(f, fr)

    def run_blocks(self, f, fr):
        bb = 'bb0'
        steps = 0
        while True:
            steps += 1
            if steps > 400:
                raise RuntimeError('step bound exceeded')
            lines = f.blocks[bb]
            for ln in lines[:-1]:
                if ln.startswith(('StorageLive', 'StorageDead', 'nop', 'FakeRead', 'PlaceMention', 'Retag', '//')):
                    continue
                m = re.fullmatch(r'(.+?) = (.+);', ln)
                if not m:
                    raise NotImplementedError('stmt ' + ln)
                dst, rv = m.groups()
                m2 = re.fullmatch(r'\{closure@.+\} \{(.*)\}', rv)
                if m2:
                    caps = [self.operand(fr, x.split(': ', 1)[1]) for x in split_args(m2.group(1))]
                    val = Adt('closure', '', caps)
                elif re.fullmatch(r'RangeTo::<usize> \{ end: (.+) \}', rv):
                    val = Adt('RangeTo', '', [self.operand(fr, re.fullmatch(r'RangeTo::<usize> \{ end: (.+) \}', rv).group(1))])
                else:
                    val = self.rvalue(fr, rv)
                self.parse_place(fr, dst).set(val)
            t = lines[-1]
            if t == 'return;':
                return fr['_0'].v if '_0' in fr else None
            m = re.fullmatch(r'goto -> (bb\d+);', t)
            if m:
                bb = m.group(1); continue
            m = re.fullmatch(r'switchInt\((.+)\) -> \[(.+)\];', t)
            if m:
                v = self.operand(fr, m.group(1))
                targets = [x.strip().split(': ') for x in m.group(2).split(',')]
                nxt = None
                for val, tb in targets:
                    if val == 'otherwise':
                        nxt = tb; break
                    if z3.is_bool(v):
                        cond = v if val != '0' else z3.Not(v)
                    else:
                        cond = v == int(val)
                    if self.branch(cond):
                        nxt = tb; break
                bb = nxt; continue
            m = re.fullmatch(r'drop\(.+\) -> \[return: (bb\d+), .+\];', t)
            if m:
                bb = m.group(1); continue
            m = re.fullmatch(r'assert\((!?)(.+?), ".*\) -> \[success: (bb\d+), .+\];', t)
            if m:
                c = self.operand(fr, m.group(2))
                if m.group(1):
                    c = z3.Not(c)
                if not self.branch(c):
                    raise Panic(t)
                bb = m.group(3); continue
            m = re.fullmatch(r'(.+?) = (.+)\((.*)\) -> \[return: (bb\d+), .+\];', t)
            if m:
                dst, callee, args, nb = m.groups()
                args = [x for x in split_args(args)]
                val = self.call(fr, callee, args)
                self.parse_place(fr, dst).set(val)
                bb = nb; continue
            raise NotImplementedError('term ' + t)

class ForkAt(Exception):
    def __init__(self, feas):
        self.feas = feas

def split_args(s):
    out, depth, cur = [], 0, ''
    for ch in s:
        if ch in '(<[{':
            depth += 1
        if ch in ')>]}':
            depth -= 1
        if ch == ',' and depth == 0:
            out.append(cur.strip()); cur = ''
        else:
            cur += ch
    if cur.strip():
        out.append(cur.strip())
    return out

def explore(fns, consts, entry, mkargs, check, maxpaths=100000):
    solver = z3.Solver()
    work = [[]]
    npaths = nq = 0
    t0 = time.time()
    viol = []
    while work:
        dec = work.pop()
        ex = Exec(fns, consts, solver, dec)
        args, pre = mkargs()
        ex.pc.extend(pre)
        try:
            res = ex.run_fn(entry, args)
            outcome = ('ret', res)
        except ForkAt as f:
            for d in f.feas:
                work.append(dec + [d])
            continue
        except Panic as p:
            outcome = ('panic', str(p))
        npaths += 1
        for name, bad in check(args, outcome):
            solver.push(); solver.add(*ex.pc); solver.add(bad)
            _t=time.time(); r = solver.check(); nq += 1; _d=time.time()-_t
            if _d>2: print('slow check query %.1fs'%_d, name, file=sys.stderr)
            if r != z3.unsat:
                viol.append((name, r, solver.model() if r == z3.sat else None))
            solver.pop()
    return npaths, nq, time.time() - t0, viol

if __name__ == '__main__':
    L = int(sys.argv[2]) if len(sys.argv) > 2 else 4
    fns, consts = parse_mir(open(sys.argv[1]).read())
    def mkargs():
        base = z3.Const('base', SEQ); arg = z3.Const('arg', SEQ)
        pre = [z3.Length(arg) <= L, z3.Length(base) <= 4]
        # base canonical: "" or "/x" style: no "//", no trailing "/", starts with "/" unless empty
        pre += [z3.Or(base == lit(''), z3.PrefixOf(lit('/'), base)), z3.Not(z3.SuffixOf(lit('/'), base)),
                z3.Not(z3.Contains(base, lit('//'))),
                z3.Not(z3.Contains(z3.Concat(base, lit('/')), lit('/./'))),
                z3.Not(z3.Contains(z3.Concat(base, lit('/')), lit('/../')))]
        return [Adt('Self', '', []), base, arg], pre
    def check(args, outcome):
        base, arg = args[1], args[2]
        if outcome[0] == 'panic':
            return [('no-panic', z3.BoolVal(True))]
        r = outcome[1]
        if r.variant == 'Err':
            return [('err-only-trailing-slash', z3.Not(z3.And(z3.Length(arg) > 1, z3.SuffixOf(lit('/'), arg))))]
        s = r.fields[0]
        canon = z3.And(z3.Or(s == lit(''), z3.PrefixOf(lit('/'), s)), z3.Not(z3.SuffixOf(lit('/'), s)),
                       z3.Not(z3.Contains(s, lit('//'))),
                       z3.Not(z3.Contains(z3.Concat(s, lit('/')), lit('/./'))),
                       z3.Not(z3.Contains(z3.Concat(s, lit('/')), lit('/../'))))
        return [('canonical', z3.Not(canon)),
                ('ok-implies-no-trailing-slash', z3.And(z3.Length(arg) > 1, z3.SuffixOf(lit('/'), arg)))]
    n, q, t, v = explore(fns, consts, 'PathLike::join_internal', mkargs, check)
    print(f'L={L} paths={n} queries={q} time={t:.1f}s violations={len(v)}')
    for x in v[:5]:
        print(x)
