#!/usr/bin/env python3
"""Run checks against seeded changes: apply seeded/<id>/patch.diff to /repo, run bin/check <props>, undo.
usage: seed_run.py [--tier quick] [--props C01,C03] [seed ids...]   (default: all seeds, each against its own property)"""
import json, os, subprocess, sys, time
V = '/verif'
args = sys.argv[1:]
tier = 'quick'
props = None
if '--tier' in args:
    i = args.index('--tier'); tier = args[i + 1]; del args[i:i + 2]
if '--props' in args:
    i = args.index('--props'); props = args[i + 1].split(','); del args[i:i + 2]
scratch = None
if '--scratch' in args:
    # run against a private copy of /repo (+ a private copy of the native driver that depends on it): /repo stays untouched,
    # e.g. while other checks are running. The final confirmation of a sweep is still done on /repo itself (no --scratch).
    i = args.index('--scratch'); scratch = args[i + 1]; del args[i:i + 2]
    os.makedirs(scratch, exist_ok=True)
    subprocess.run('rsync -a --delete --exclude target --exclude .git /repo/ %s/repo/' % scratch, shell=True, check=True)
    os.makedirs(scratch + '/native', exist_ok=True)
    subprocess.run('rsync -a --delete %s/native/src %s/native/Cargo.lock %s/native/' % (V, V, scratch), shell=True, check=True)
    open(scratch + '/native/Cargo.toml', 'w').write(open(V + '/native/Cargo.toml').read().replace('path = "/repo"', 'path = "%s/repo"' % scratch))
    os.environ['VERIF_REPO'] = scratch + '/repo'
    os.environ['VERIF_NATIVE_DIR'] = scratch + '/native'
ids = args or sorted(d for d in os.listdir(os.path.join(V, 'seeded')) if not d.startswith('_') and os.path.isdir(os.path.join(V, 'seeded', d)))
res_path = os.path.join(V, 'seeded', 'results.json')
results = json.load(open(res_path)) if os.path.exists(res_path) else {}
assert scratch or subprocess.run('git -C /repo status --porcelain --untracked-files=no', shell=True, capture_output=True, text=True).stdout.strip() == '', '/repo not clean'
for sid in ids:
    d = os.path.join(V, 'seeded', sid)
    meta = json.load(open(os.path.join(d, 'meta.json')))
    ps = props or [meta['property']]
    if scratch:
        subprocess.run('rsync -a --delete %s/native/src %s/native/' % (V, scratch), shell=True)       # the driver may have changed meanwhile
        r = subprocess.run('cd %s/repo && patch -p1 -s < %s/patch.diff' % (scratch, d), shell=True, capture_output=True, text=True)
    else:
        r = subprocess.run('git -C /repo apply %s/patch.diff' % d, shell=True, capture_output=True, text=True)
    if r.returncode != 0:
        print(sid, 'PATCH DOES NOT APPLY', r.stderr[:200]); continue
    try:
        for p in ps:
            t = time.time()
            # evidence and replay files of a run against a seeded change are not evidence about /repo: keep the committed ones
            ev = os.path.join(V, 'evidence', p + '.json')
            ev_old = open(ev).read() if os.path.exists(ev) else None
            rp_old = set(os.listdir(os.path.join(V, 'replays')))
            c = subprocess.run(['bin/check', p, '--tier', tier], cwd=V, capture_output=True, text=True)
            if ev_old is not None:
                open(ev, 'w').write(ev_old)
            for f_ in set(os.listdir(os.path.join(V, 'replays'))) - rp_old:
                os.unlink(os.path.join(V, 'replays', f_))
            viol = [l for l in c.stdout.split('\n') if l.startswith('VIOLATION')]
            keys = [l.strip() for l in c.stdout.split('\n') if l.strip().startswith('key:')]
            inc = [l for l in c.stdout.split('\n') if l.startswith('INCONCLUSIVE')]
            status = 'DETECTED' if c.returncode == 1 and viol else ('inconclusive' if c.returncode == 2 else 'missed')
            print('%-8s vs %s %s: %s (%d violations, %.0fs) %s' % (sid, p, tier, status, len(viol), time.time() - t, '; '.join(keys[:3]) or '; '.join(inc[:2])[:200]))
            results.setdefault(sid, {})['%s:%s' % (p, tier)] = {'status': status, 'exit': c.returncode, 'keys': keys[:8], 'inconclusive': [i[:200] for i in inc[:3]]}
    finally:
        if scratch:
            subprocess.run('rsync -a --delete --exclude target --exclude .git /repo/ %s/repo/ && find %s/repo/src -name "*.rs" -exec touch {} +' % (scratch, scratch), shell=True)
        else:
            subprocess.run('git -C /repo checkout -- .', shell=True)
    json.dump(results, open(res_path, 'w'), indent=1, sort_keys=True)
