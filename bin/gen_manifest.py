#!/usr/bin/env python3
"""regenerates MANIFEST.json from the table below (kept in one place so it stays valid)"""
import json, os
V = os.path.dirname(os.path.dirname(os.path.abspath(__file__)))
TECH = 'bounded symbolic execution of the crate\'s rustc MIR (own executor "mirsym"), z3 QF_BV decides every branch and assertion; counterexamples replayed natively'
CHECKS = {
 'C01': ('one inductive step from every well-formed tree over the universe (MemoryFS, AltrootFS over it; overlay histories come from C09): every primitive and observer on every path; outcome vs contract, exact post-tree byte for byte by solver query',
         '§5 C01'),
 'C03': ('same one-step exploration on the unrestricted domain (wrong-type calls, composites, root): post-state observed through the real observers must be a well-formed tree', '§5 C03'),
 'C13': ('every explored path that ends in a panic (failed MIR assert, modelled library panic, explicit panic!) is a counterexample; dev and release arithmetic', '§5 C13'),
}
NOTE = 'trusted: rustc MIR dump, mirsym interpreter + std contract models (validated by native differential selftest in every run), contract oracle harness/core.py, z3. Bounds in evidence.coverage.bounds; nothing outside them is claimed.'
NA = {
}
props = [json.loads(l) for l in open(os.path.join(V, 'properties.jsonl'))]
m = {
 'version': 1,
 'setup_cmd': 'cd /verif/native && CARGO_NET_OFFLINE=true cargo build --offline 2>&1 | tail -2',
 'hooks': {'guard': 'manuel_woelker_rust_vfs_verif', 'enable': 'RUSTFLAGS="--cfg manuel_woelker_rust_vfs_verif" (no hook is committed yet; checks run on the unmodified source)',
           'baseline_off_cmd': 'cd /repo && cargo test --workspace --no-fail-fast --offline', 'source_commits': [], 'add_only': True},
 'engines': [{'name': 'mirsym', 'path': 'mirsym/', 'serves_properties': sorted(CHECKS), 'kind_free_text': 'symbolic executor over rustc MIR text dumps, z3 bit-vector back end'},
             {'name': 'native-driver', 'path': 'native/', 'serves_properties': sorted(CHECKS), 'kind_free_text': 'native script driver used for encoder selftest and counterexample replay'}],
 'checks': [], 'not_applicable': [],
 'notes': 'exit 2 = inconclusive (bound hit, unmodelled callee, solver unknown, selftest mismatch, non-reproducing counterexample); never reported as pass or violation',
}
for p in props:
    pid = p['id']
    if pid in CHECKS:
        text, ref = CHECKS[pid]
        m['checks'].append({'property_id': pid, 'quick_cmd': 'bin/check %s --tier quick' % pid, 'thorough_cmd': 'bin/check %s --tier thorough' % pid,
                            'evidence_file': 'evidence/%s.json' % pid, 'replay_cmd_template': 'bin/replay {path}', 'engine': 'mirsym',
                            'level_claimed': {'category': 'model_checking', 'text': text, 'design_ref': 'DESIGN.md ' + ref},
                            'level_note': NOTE, 'technique': TECH})
    else:
        m['not_applicable'].append({'property_id': pid, 'reason': NA.get(pid, 'not built yet (harness in progress; see DESIGN.md §9 build order)')})
json.dump(m, open(os.path.join(V, 'MANIFEST.json'), 'w'), indent=1)
print('checks', len(m['checks']), 'not_applicable', len(m['not_applicable']))
