#!/usr/bin/env python3
"""regenerates MANIFEST.json from the table below (kept in one place so it stays valid)"""
import json, os
V = os.path.dirname(os.path.dirname(os.path.abspath(__file__)))
TECH = 'bounded symbolic execution of the crate\'s rustc MIR (own executor "mirsym"), z3 QF_BV decides every branch and assertion; counterexamples replayed natively'
CHECKS = {
 'C01': ('one inductive step from every well-formed tree over the universe (MemoryFS, AltrootFS over it) plus overlay histories over 2-3 layers (layers as roots or as sub-directories of one filesystem) against the union-tree contract, right-typed copy/move transfers, and 4-call histories on one MemoryFS/AltrootFS (state carried between calls): every primitive, observer and composite on every path, also with solver-chosen names; outcome vs contract, exact post-tree byte for byte by solver query', '§5 C01'),
 'C03': ('one-step exploration on the unrestricted domain (wrong-type calls, composites, root) plus overlay histories (removals, then-parent removals, *_wo and dotted sibling names, solver-chosen names) and copy/move transfers with right and wrong source types: the post-state observed through the real observers must be a well-formed tree', '§5 C03'),
 'C04': ('write sessions (create/append x write/seek/flush with symbolic bytes and 64-bit offsets) against a reference growable cursor; fresh reads with several buffer sizes and header+read_to_end, metadata len, copy/move and independence of a copy from its source; MemoryFS, AltrootFS, OverlayFS copy-up, PhysicalFS@OSM', '§5 C04'),
 'C05': ('observer-consistency monitor (exists/metadata/is_file/is_dir/read_dir/open/walk_dir) on every post-state of the one-step, overlay and transfer explorations (also with solver-chosen names), under three hash-iteration orders', '§5 C05'),
 'C06': ('join/parent/filename/extension/root/is_root/== executed on symbolic base and argument strings; result compared by the solver with an independent reference resolver; canonicity is inductive', '§5 C06'),
 'C07': ('AltrootFS::path = P+q on symbolic strings; exactness (altroot view = subtree below P) and confinement (entries outside P bit-identical, every underlying call below P) for every op from every state, also through hostile join strings and with a missing P', '§5 C07'),
 'C08': ('overlay bounded histories from symbolic initial layers: no mutating dispatch to a lower layer, observers dispatch no mutation, lower layers observed unchanged; concrete and solver-chosen names; layers on MemoryFS and on one shared PhysicalFS@OSM', '§5 C08'),
 'C09': ('overlay bounded histories: model = merged union tree, then the plain tree contract; 1-4 layers; concrete and solver-chosen entry names', '§5 C09'),
 'C10': ('overlay histories starting with removals: removed entries and descendants stay absent, re-created entries are fresh, bookkeeping never listed; includes *_wo sibling names and solver-chosen names; handles flushed after removal', '§5 C10'),
 'C11': ("copy_file/move_file/copy_dir/move_dir between instance pairs (fast paths and generic fallback) from every source tree x destination situation incl. a sibling that shares the source's name prefix and solver-chosen child names; create_dir_all/remove_dir_all one-step and through overlays over nested lower trees; transfers inside one overlay with pre-populated lower layers, PhysicalFS@OSM pairs, same-text destinations between instances", '§5 C11'),
 'C12': ('error-path monitor over the one-step, overlay and transfer explorations and under one injected underlying failure at every call position: VfsError.path must be the call path, its destination or an ancestor/descendant in the caller namespace, never the placeholder; kinds per contract', '§5 C12'),
 'C13': ('every explored path that ends in a panic (failed MIR assert, modelled library panic, explicit panic!) or self-deadlock is a counterexample; one-step incl. solver-chosen (multi-byte) names, reader scripts with any 64-bit offset (dev and release arithmetic), writer sessions, handles after removal, overlay histories, PhysicalFS@OSM over hostile directory content (non-UTF-8 names, unix sockets, dangling symbolic links; replayed on a real directory), an altroot without its directory, the path kernels on symbolic strings, two-thread schedules on one MemoryFS, stepwise walks and reader kernels of the async port', '§5 C13'),
 'C14': ('reader scripts (read, seek, read_to_end) in lock-step with a reference cursor (symbolic 64-bit offsets); writer sessions against a reference growable cursor (MemoryFS and adapters; create handles of PhysicalFS@OSM)', '§5 C14'),
 'C02': ('lock-step differential: the same call from the same tree on the real MemoryFS MIR and on the real PhysicalFS MIR over an OS contract model of std::fs (validated against the real kernel by the native selftest in every run); success/failure, not-found/exists classes, data and full snapshot compared; held create/append handles, copy-then-write independence and short identical histories (state carried between calls)', '§5 C02'),
 'C15': ('the async API against the sync API in lock-step on the lowered-coroutine MIR: AsyncMemoryFS/AsyncAltrootFS/AsyncOverlayFS through AsyncVfsPath vs their sync twins for every call from every well-formed tree (outcome, error kind and path, data, full snapshot), walk_dir consumed stepwise with a removal in between (stream vs iterator), the hand-written reader kernels on symbolic scripts; external futures return Pending 0/1/2 times; AsyncPhysicalFS is outside', '§5 C15'),
 'C16': ('2 threads x 1 call (thorough: 2x2, 3x1) on overlapping paths of one MemoryFS (concrete and solver-chosen names): every interleaving at lock-acquisition granularity explored on the real MIR; results and final snapshot must equal a sequential order (solver compares bytes); deadlock incl. recursive read lock; schedules replayed natively through the cfg hook', '§5 C16'),
 'C17': ('concurrent create_dir_all on overlapping paths from every set of pre-existing prefixes (concrete and solver-chosen component names): every interleaving (MemoryFS) / preemption-bounded interleavings (OverlayFS, AltrootFS); all calls Ok and all prefixes directories', '§5 C17'),
 'C18': ('RustEmbed replaced by a model over every subset of candidate embedded files with symbolic bytes; real EmbeddedFS::new and trait methods through VfsPath; all observers vs the implied tree, all mutators refused and nothing changed; two embedded folders (two RustEmbed types) in one process; plus a probe whose path is a solver variable (any canonical path of 2..8 bytes): no phantom and no missing entry', '§5 C18'),
 'C19': ('setter sequences with symbolic instants on files, directories and filesystem roots (MemoryFS, PhysicalFS@OSM, altroot/overlay over them): the set field round-trips, other fields/length/type/bytes unchanged, append preserves creation time', '§5 C19'),
 'C20': ('fault switch on every dyn FileSystem dispatch to an underlying filesystem: for each operation (adapter primitives, composites incl. copy/move, walk_dir, read_to_string; also after removals that leave overlay markers) every call index k fails once; Ok implies full effect and right answer, never a panic, lower layers untouched', '§5 C20'),
}
NOTE = 'thorough tier: the same families with wider plans, explored in seeded random order within a time budget per check (VERIF_THOROUGH_BUDGET_S, default 420 s); evidence reports planned vs run cases. trusted: rustc MIR dump, mirsym interpreter + std contract models (validated by native differential selftest in every run), contract oracle harness/core.py, z3. Bounds in evidence.coverage.bounds; nothing outside them is claimed.'
NA = {
}
props = [json.loads(l) for l in open(os.path.join(V, 'properties.jsonl'))]
m = {
 'version': 1,
 'setup_cmd': 'bin/setup.sh',
 'hooks': {'guard': 'manuel_woelker_rust_vfs_verif', 'enable': 'RUSTFLAGS="--cfg manuel_woelker_rust_vfs_verif" when building native/ (profile "hooks" in harness/script.py): MemoryFS then uses vfs::verif_hooks::RwLock, which yields to an installed schedule before every acquisition; used only to replay schedule counterexamples of C16/C17 natively. No check needs the hook to decide a property (the MIR dump is taken with the cfg off).',
           'baseline_off_cmd': 'cd /repo && cargo test --workspace --no-fail-fast --offline', 'source_commits': ['7227458', '2f1e929'], 'add_only': False},
 'engines': [{'name': 'mirsym', 'path': 'mirsym/', 'serves_properties': sorted(CHECKS), 'kind_free_text': 'symbolic executor over rustc MIR text dumps, z3 bit-vector back end'},
             {'name': 'native-driver', 'path': 'native/', 'serves_properties': sorted(CHECKS), 'kind_free_text': 'native script driver used for encoder selftest and counterexample replay'}],
 'checks': [], 'not_applicable': [],
 'notes': 'hooks.add_only is false because one `use std::sync::{Arc, RwLock};` line of src/impls/memory.rs was split into a cfg(not)/cfg pair of imports (identical with the cfg off); everything else is added code. exit 2 = inconclusive (bound hit, unmodelled callee, solver unknown, selftest mismatch, non-reproducing counterexample); never reported as pass or violation',
}
for p in props:
    pid = p['id']
    if pid in CHECKS:
        text, ref = CHECKS[pid]
        m['checks'].append({'property_id': pid, 'quick_cmd': 'bin/check %s --tier quick' % pid, 'thorough_cmd': 'bin/check %s --tier thorough' % pid,
                            'evidence_file': 'evidence/%s.json' % pid, 'replay_cmd_template': 'bin/replay {path}', 'engine': 'mirsym',
                            'level_claimed': {'category': 'model_checking', 'text': text, 'design_ref': 'DESIGN.md ' + ref},
                            'level_note': NOTE, 'technique': TECH})
    else:
        m['not_applicable'].append({'property_id': pid, 'reason': NA.get(pid, 'not built yet (harness in progress; see DESIGN.md §9 build order)')})
json.dump(m, open(os.path.join(V, 'MANIFEST.json'), 'w'), indent=1)
print('checks', len(m['checks']), 'not_applicable', len(m['not_applicable']))
