#!/bin/bash
# builds the native script driver (all replay variants) offline from files on disk
set -e
cd "$(dirname "$0")/../native"
export CARGO_NET_OFFLINE=true
unset RUSTFLAGS
mkdir -p /var/tmp/verif-embed /var/tmp/verif-embed2
cargo build --offline 2>&1 | tail -1
CARGO_TARGET_DIR="$PWD/target-embed" cargo build --offline --features embed 2>&1 | tail -1
CARGO_TARGET_DIR="$PWD/target-async" cargo build --offline --features asyncvfs 2>&1 | tail -1
RUSTFLAGS="--cfg manuel_woelker_rust_vfs_verif" CARGO_TARGET_DIR="$PWD/target-hooks" cargo build --offline 2>&1 | tail -1
