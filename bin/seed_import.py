#!/usr/bin/env python3
"""Import and independently confirm seeded changes produced by sub-agents.
usage: seed_import.py <agent OUT dir> <property id> [index...]
For each patchN.diff/demoN.rs: in a scratch worktree of /repo HEAD confirm that (1) the demo passes on the unchanged
tree, (2) with the patch the crate compiles and the full existing test suite passes, (3) the demo fails with the patch.
Confirmed changes are stored as /verif/seeded/<prop>-<n>/{patch.diff,demo.rs,meta.json}."""
import json, os, re, subprocess, sys, shutil
out_dir, prop = sys.argv[1], sys.argv[2]
idxs = sys.argv[3:] or ['1', '2']
FEAT = {'C15': ' --features async-vfs', 'C18': ' --features embedded-fs'}.get(prop, '')
V = '/verif'
WT = '/tmp/sv_worktree'
ENV = dict(os.environ, CARGO_TARGET_DIR='/tmp/sv_target', CARGO_NET_OFFLINE='true')

def sh(cmd, cwd=WT, timeout=900):
    r = subprocess.run(cmd, shell=True, cwd=cwd, env=ENV, capture_output=True, text=True, timeout=timeout)
    return r.returncode, r.stdout + r.stderr

if not os.path.exists(WT):
    print(sh('git -C /repo worktree add -f --detach %s HEAD' % WT, cwd='/')[1][-200:])
else:
    sh('git checkout -q --detach %s' % subprocess.check_output('git -C /repo rev-parse HEAD', shell=True, text=True).strip())
for n in idxs:
    patch, demo = os.path.join(out_dir, 'patch%s.diff' % n), os.path.join(out_dir, 'demo%s.rs' % n)
    if not (os.path.exists(patch) and os.path.exists(demo)):
        print(prop, n, 'missing files'); continue
    sh('git reset -q --hard HEAD && git clean -fdq')
    os.makedirs(os.path.join(WT, 'tests'), exist_ok=True)
    os.makedirs(os.path.join(WT, 'target'), exist_ok=True)
    dtext = open(demo).read()
    FEAT = ' --features async-vfs' if 'async_vfs' in dtext else (' --features embedded-fs' if 'EmbeddedFS' in dtext else '')
    is_example = '#[test]' not in dtext
    if is_example:
        os.makedirs(os.path.join(WT, 'examples'), exist_ok=True)
        shutil.copy(demo, os.path.join(WT, 'examples', 'seed_demo.rs'))
        DEMO = 'cargo run --offline%s --example seed_demo > /tmp/sv_demo.out 2>&1; echo "DEMO_EXIT=$?"; tail -8 /tmp/sv_demo.out' % FEAT
    else:
        shutil.copy(demo, os.path.join(WT, 'tests', 'seed_demo.rs'))
        DEMO = 'cargo test --offline%s --test seed_demo 2>&1 | tail -15' % FEAT
    rc0, o0 = sh(DEMO)
    pass0 = ('DEMO_EXIT=0' in o0) if is_example else ('test result: ok' in o0)
    rc, o = sh('git apply %s 2>&1 || (git apply --3way %s 2>&1 && ! git diff --name-only --diff-filter=U | grep -q .)' % (patch, patch))
    applied = rc == 0
    rc1, o1 = sh('cargo test --offline --lib 2>&1 | tail -5')
    m = re.search(r'test result: (\w+)\. (\d+) passed; (\d+) failed', o1)
    suite = (m.group(1), int(m.group(2)), int(m.group(3))) if m else ('?', 0, 0)
    rc2, o2 = sh(DEMO)
    fail2 = ('DEMO_EXIT=' in o2 and 'DEMO_EXIT=0' not in o2 and 'could not compile' not in o2) if is_example else ('test result: FAILED' in o2 or 'panicked' in o2)
    hang = False
    ok = applied and pass0 and suite[0] == 'ok' and suite[1] >= 397 and fail2
    print('%s #%s: applied=%s demo_passes_unchanged=%s suite=%s demo_fails_with_patch=%s => %s' % (prop, n, applied, pass0, suite, fail2, 'CONFIRMED' if ok else 'REJECTED'))
    if not ok:
        print('   ', o0[-300:].replace('\n', ' | ') if not pass0 else '', o1[-200:].replace('\n', ' | ') if suite[0] != 'ok' else '')
        continue
    # store the diff relative to the current HEAD
    rcd, diff = sh('git diff HEAD -- src')
    k = 1
    while os.path.exists(os.path.join(V, 'seeded', '%s-%d' % (prop, k))):
        k += 1
    d = os.path.join(V, 'seeded', '%s-%d' % (prop, k))
    os.makedirs(d)
    open(os.path.join(d, 'patch.diff'), 'w').write(diff)
    shutil.copy(demo, os.path.join(d, 'demo.rs'))
    notes = open(os.path.join(out_dir, 'notes.md')).read() if os.path.exists(os.path.join(out_dir, 'notes.md')) else ''
    open(os.path.join(d, 'notes.md'), 'w').write(notes)
    json.dump({'property': prop, 'source': 'sub-agent, independent worktree, saw only the property text', 'agent_index': n,
               'needs_to_manifest': 'see notes.md (section for change %s)' % n,
               'confirmed': {'demo_passes_on_unchanged_tree': pass0, 'patch_applies_and_compiles': applied,
                             'existing_suite_with_patch': {'passed': suite[1], 'failed': suite[2]}, 'demo_fails_with_patch': fail2,
                             'commands': ['cargo test --offline --test seed_demo (unchanged)', 'git apply patch.diff', 'cargo test --offline --lib', 'cargo test --offline --test seed_demo (patched)']},
               'detected_by': None}, open(os.path.join(d, 'meta.json'), 'w'), indent=1)
    print('   stored', d)
sh('git reset -q --hard HEAD && git clean -fdq')
