#!/usr/bin/env python3
"""copies the outcome of the last bin/seed_run.py sweep into each seeded/<id>/meta.json (detected_by / ran)"""
import json, os
V = '/verif'
res = json.load(open(os.path.join(V, 'seeded', 'results.json')))
for sid, r in sorted(res.items()):
    p = os.path.join(V, 'seeded', sid, 'meta.json')
    if not os.path.exists(p):
        continue
    m = json.load(open(p))
    m['detected_by'] = sorted(k for k, v in r.items() if v['status'] == 'DETECTED')
    m['ran'] = {k: {'status': v['status'], 'exit': v['exit'], 'keys': v['keys'][:3]} for k, v in r.items()}
    m['what_i_ran'] = 'git -C /repo apply seeded/%s/patch.diff; bin/check <property> --tier quick; git -C /repo checkout -- .' % sid
    json.dump(m, open(p, 'w'), indent=1)
print('updated', len(res))
