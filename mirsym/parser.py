"""Parser for rustc's `-Zunpretty=mir` text dump.

Produces Fn objects whose statements/terminators are pre-parsed tuples, so the interpreter never
touches text at run time.  The dump is regenerated from /repo's working tree on every check run
(see mirsym/dump.py); nothing here caches a model of the code.
"""
import re

# ----------------------------------------------------------------------------------- utilities

OPEN, CLOSE = '([{', ')]}'


def split_top(s, sep=','):
    """split at top-level separators; understands () [] {} <> and string/char literals"""
    out, depth, cur, i, n = [], 0, [], 0, len(s)
    while i < n:
        ch = s[i]
        if ch == '"':
            j = i + 1
            while j < n and s[j] != '"':
                j += 2 if s[j] == '\\' else 1
            cur.append(s[i:j + 1]); i = j + 1; continue
        if ch == "'" and i + 2 < n and (s[i + 2] == "'" or (s[i + 1] == '\\' and "'" in s[i + 2:i + 8])):
            j = s.index("'", i + 2 if s[i + 1] != '\\' else i + 3)
            cur.append(s[i:j + 1]); i = j + 1; continue
        if ch in OPEN or ch == '<':
            depth += 1
        elif ch in CLOSE:
            depth -= 1
        elif ch == '>' and i > 0 and s[i - 1] not in '-=':
            depth -= 1
        if ch == sep and depth == 0:
            out.append(''.join(cur).strip()); cur = []
        else:
            cur.append(ch)
        i += 1
    t = ''.join(cur).strip()
    if t:
        out.append(t)
    return out


def paren_balanced(s):
    d = 0
    for ch in s:
        if ch == '(':
            d += 1
        elif ch == ')':
            d -= 1
            if d < 0:
                return False
    return d == 0


def unescape(body):
    """rust escaped literal body -> bytes"""
    out = bytearray()
    i, n = 0, len(body)
    while i < n:
        ch = body[i]
        if ch != '\\':
            out += ch.encode('utf-8'); i += 1; continue
        c = body[i + 1]
        if c == 'n':
            out.append(10); i += 2
        elif c == 't':
            out.append(9); i += 2
        elif c == 'r':
            out.append(13); i += 2
        elif c == '0':
            out.append(0); i += 2
        elif c in '\\\'"':
            out.append(ord(c)); i += 2
        elif c == 'x':
            out.append(int(body[i + 2:i + 4], 16)); i += 4
        elif c == 'u':
            j = body.index('}', i)
            out += chr(int(body[i + 3:j], 16)).encode('utf-8'); i = j + 1
        else:
            raise ValueError('escape ' + body[i:i + 4])
    return bytes(out)


INT_TYPES = {'u8': (8, False), 'u16': (16, False), 'u32': (32, False), 'u64': (64, False), 'u128': (128, False),
             'usize': (64, False), 'i8': (8, True), 'i16': (16, True), 'i32': (32, True), 'i64': (64, True),
             'i128': (128, True), 'isize': (64, True), 'char': (32, False), 'bool': (1, False)}

# ----------------------------------------------------------------------------------- places


class Place:
    __slots__ = ('local', 'proj', 'ty', 'text')

    def __init__(self, local, proj, ty, text):
        self.local, self.proj, self.ty, self.text = local, proj, ty, text

    def __repr__(self):
        return self.text


_place_cache = {}
_FIELD_RE = re.compile(r'\.(\d+): ')


def parse_place(s):
    s = s.strip()
    p = _place_cache.get(s)
    if p is None:
        local, proj, ty = _parse_place(s)
        p = _place_cache[s] = Place(local, tuple(proj), ty, s)
    return p


def _parse_place(s):
    if re.fullmatch(r'_\d+', s):
        return s, [], None
    if s.endswith(']'):
        # index / constant index / subslice
        d = 0
        for k in range(len(s) - 1, -1, -1):
            if s[k] == ']':
                d += 1
            elif s[k] == '[':
                d -= 1
                if d == 0:
                    break
        base, idx = s[:k], s[k + 1:-1]
        local, proj, _ = _parse_place(base)
        if re.fullmatch(r'_\d+', idx):
            proj.append(('index', idx))
        else:
            m = re.fullmatch(r'(-?\d+) of (\d+)', idx)
            if m:
                proj.append(('constindex', int(m.group(1)), int(m.group(2))))
            else:
                m = re.fullmatch(r'(\d+):(-?\d*)', idx)
                if not m:
                    raise ValueError('place index ' + s)
                proj.append(('subslice', int(m.group(1)), m.group(2)))
        return local, proj, None
    if s.startswith('(*') and s.endswith(')') and paren_balanced(s[2:-1]):
        local, proj, _ = _parse_place(s[2:-1])
        proj.append(('deref',))
        return local, proj, None
    if s.startswith('(') and s.endswith(')'):
        inner = s[1:-1]
        # field:  <place>.N: TYPE      downcast: <place> as Variant
        d = 0
        i, n = 0, len(inner)
        while i < n:
            ch = inner[i]
            if ch in '([':
                d += 1
            elif ch in ')]':
                d -= 1
            elif d == 0:
                if ch == '.':
                    m = _FIELD_RE.match(inner, i)
                    if m:
                        local, proj, _ = _parse_place(inner[:i])
                        proj.append(('field', int(m.group(1))))
                        return local, proj, inner[m.end():]
                elif inner.startswith(' as ', i):
                    local, proj, _ = _parse_place(inner[:i])
                    proj.append(('downcast', inner[i + 4:]))
                    return local, proj, None
            i += 1
    raise ValueError('place ' + s)

# ----------------------------------------------------------------------------------- operands


def parse_const(c):
    """-> ('int', value, tyname) | ('bool', b) | ('str', bytes) | ('bytes', bytes) | ('char', cp) | ('unit',)
          | ('zst', text) | ('promoted', text) | ('path', text)"""
    c = c.strip()
    if c in ('true', 'false'):
        return ('bool', c == 'true')
    if c == '()':
        return ('unit',)
    m = re.fullmatch(r'(-?\d+)_([ui](?:size|\d+))', c)
    if m:
        return ('int', int(m.group(1)), m.group(2))
    m = re.fullmatch(r'(-?[\d.]+(?:[eE]-?\d+)?)(f32|f64)', c)
    if m:
        return ('float', float(m.group(1)))
    if c.startswith('b"') and c.endswith('"'):
        return ('bytes', unescape(c[2:-1]))
    if c.startswith('"') and c.endswith('"'):
        return ('str', unescape(c[1:-1]))
    if c.startswith("'") and c.endswith("'"):
        return ('char', ord(unescape(c[1:-1]).decode('utf-8')))
    if c.startswith('ZeroSized: '):
        return ('zst', c[len('ZeroSized: '):])
    if 'promoted[' in c:
        return ('promoted', c)
    return ('path', c)


def parse_operand(s):
    """-> ('copy', Place) | ('move', Place) | ('const', parsed)"""
    s = s.strip()
    if s.startswith('no_retag '):
        s = s[9:]
    if s.startswith('copy '):
        return ('copy', parse_place(s[5:]))
    if s.startswith('move '):
        return ('move', parse_place(s[5:]))
    if s.startswith('const '):
        return ('const', parse_const(s[6:]))
    if re.match(r'[A-Za-z_<]', s):
        return ('const', ('path', s))         # fn item / enum constructor used as a value
    raise ValueError('operand ' + s)


BINOPS = {'Add', 'Sub', 'Mul', 'Div', 'Rem', 'BitXor', 'BitAnd', 'BitOr', 'Shl', 'Shr', 'Eq', 'Lt', 'Le', 'Ne',
          'Ge', 'Gt', 'Offset', 'Cmp', 'AddWithOverflow', 'SubWithOverflow', 'MulWithOverflow', 'AddUnchecked',
          'SubUnchecked', 'MulUnchecked', 'ShlUnchecked', 'ShrUnchecked'}
UNOPS = {'Not', 'Neg', 'PtrMetadata'}


def find_call_paren(expr):
    """index of the '(' that opens the final argument list of `callee(args)`"""
    depth = 0
    i = len(expr) - 1
    instr = False
    while i >= 0:
        ch = expr[i]
        if ch == '"' and (i == 0 or expr[i - 1] != '\\'):
            instr = not instr
        elif not instr:
            if ch == ')':
                depth += 1
            elif ch == '(':
                depth -= 1
                if depth == 0:
                    return i
        i -= 1
    raise ValueError('call ' + expr)


def parse_rvalue(rv):
    rv = rv.strip()
    if rv.startswith('no_retag '):
        rv = rv[9:]
    if rv.startswith(('move ', 'copy ', 'const ')):
        m = re.fullmatch(r'((?:move|copy|const) .+?) as (.+) \((\w+)(?:\((.*)\))?(?:, \w+)?\)', rv, re.S)
        if m and paren_balanced(m.group(1)):
            return ('cast', parse_operand(m.group(1)), m.group(2), m.group(3), m.group(4))
        return ('use', parse_operand(rv))
    if rv.startswith('&raw const (fake) '):
        return ('ref', parse_place(rv[18:]), 'raw')
    if rv.startswith('&raw const '):
        return ('ref', parse_place(rv[11:]), 'raw')
    if rv.startswith('&raw mut '):
        return ('ref', parse_place(rv[9:]), 'raw')
    if rv.startswith('&mut '):
        return ('ref', parse_place(rv[5:]), 'mut')
    if rv.startswith('&fake shallow '):
        return ('ref', parse_place(rv[14:]), 'shared')
    if rv.startswith('&'):
        return ('ref', parse_place(rv[1:]), 'shared')
    m = re.fullmatch(r'(\w+)\((.*)\)', rv, re.S)
    if m:
        head = m.group(1)
        if head in BINOPS:
            a, b = split_top(m.group(2))
            return ('binop', head, parse_operand(a), parse_operand(b))
        if head in UNOPS:
            return ('unop', head, parse_operand(m.group(2)))
        if head == 'discriminant':
            return ('discriminant', parse_place(m.group(2)))
        if head == 'Len':
            return ('len', parse_place(m.group(2)))
        if head == 'CopyForDeref':
            return ('use', ('copy', parse_place(m.group(2))))
        if head in ('SizeOf', 'AlignOf'):
            return ('nullop', head, m.group(2))
    if rv.startswith('[') and rv.endswith(']'):
        inner = rv[1:-1]
        parts = split_top(inner, ';')
        if len(parts) == 2:
            return ('repeat', parse_operand(parts[0]), parts[1])
        return ('array', [parse_operand(x) for x in split_top(inner)])
    if rv.startswith('(') and rv.endswith(')') and paren_balanced(rv[1:-1]):
        return ('tuple', [parse_operand(x) for x in split_top(rv[1:-1])])
    # struct / closure aggregate   Name { f: op, ... }
    if rv.endswith('}'):
        m = re.fullmatch(r'(\{(?:closure|coroutine|async \w+|async_fn_body)[^}]*\}|[^{]+?) \{(.*)\}', rv, re.S)
        if m:
            name = m.group(1).strip()
            fields = []
            for x in split_top(m.group(2)):
                fn_, op = x.split(': ', 1)
                fields.append((fn_.strip(), parse_operand(op)))
            return ('struct', name, fields, _last_seg(name))
    # enum variant with payload  Path::Variant(args) ; unit variant  Path::Variant
    if rv.endswith(')'):
        k = find_call_paren(rv)
        head, args = rv[:k], rv[k + 1:-1]
        return ('variant', head, [parse_operand(x) for x in split_top(args)]) + _variant_names(head)
    return ('variant', rv, []) + _variant_names(rv)


def _variant_names(head):
    parts = strip_generics(head).split('::')
    return (parts[-2] if len(parts) > 1 else parts[-1], parts[-1])


def _last_seg(ty):
    ty = strip_generics(ty.strip())
    ty = re.sub(r"^&(?:'\w+ )?(?:mut )?", '', ty)
    return ty.split('::')[-1]


def strip_generics(name):
    """remove every <...> group (turbofish and type arguments) from a path"""
    out, d = [], 0
    i, n = 0, len(name)
    while i < n:
        ch = name[i]
        if ch == '<':
            d += 1
        elif ch == '>' and (i == 0 or name[i - 1] not in '-='):
            d -= 1
        elif d == 0:
            out.append(ch)
        i += 1
    return ''.join(out).replace('::::', '::').rstrip(':')

# ----------------------------------------------------------------------------------- statements


SKIP = ('StorageLive', 'StorageDead', 'nop', 'FakeRead', 'PlaceMention', 'Retag', '//', 'Coverage', 'AscribeUserType',
        'ConstEvalCounter', 'Deinit', 'BackwardIncompatibleDropHint', 'debug ', 'scope ', 'let ')


def parse_stmt(ln):
    if ln.startswith(SKIP):
        return None
    m = re.fullmatch(r'discriminant\((.+)\) = (\d+);', ln)
    if m:
        return ('setdiscr', parse_place(m.group(1)), int(m.group(2)))
    if ln.startswith('assume('):
        return None
    k = find_assign(ln)
    if k < 0 or not ln.endswith(';'):
        raise ValueError('stmt ' + ln)
    return ('assign', parse_place(ln[:k]), parse_rvalue(ln[k + 3:-1]))


def find_assign(ln):
    """index of the first ' = ' outside (), [] and <> (types such as `Item = T` contain ' = ')"""
    d = 0
    for i, ch in enumerate(ln):
        if ch in '([<':
            d += 1
        elif ch in ')]':
            d -= 1
        elif ch == '>' and ln[i - 1] not in '-=':
            d -= 1
        elif d == 0 and ch == ' ' and ln.startswith(' = ', i):
            return i
    return -1


def parse_targets(s):
    """'[return: bb1, unwind: bb2]' -> dict"""
    d = {}
    for x in split_top(s.strip()[1:-1]):
        if ': ' in x:
            k, v = x.split(': ', 1)
            d[k.strip()] = v.strip()
    return d


def parse_term(t):
    if t == 'return;':
        return ('return',)
    if t == 'unreachable;':
        return ('unreachable',)
    if t.startswith('resume') or t.startswith('terminate') or t.startswith('abort'):
        return ('resume',)
    m = re.fullmatch(r'goto -> (bb\d+);', t)
    if m:
        return ('goto', m.group(1))
    m = re.fullmatch(r'switchInt\((.+)\) -> \[(.+)\];', t, re.S)
    if m:
        cases, other = [], None
        for x in m.group(2).split(','):
            val, tb = x.strip().split(': ')
            if val == 'otherwise':
                other = tb
            else:
                cases.append((int(val), tb))
        return ('switch', parse_operand(m.group(1)), cases, other)
    m = re.fullmatch(r'drop\((.+)\) -> \[return: (bb\d+), .+\];', t, re.S)
    if m:
        return ('drop', parse_place(m.group(1)), m.group(2))
    if t.startswith('assert('):
        m = re.fullmatch(r'assert\((!?)(.+?), (".*")(.*)\) -> \[success: (bb\d+), .+\];', t, re.S)
        if m:
            return ('assert', bool(m.group(1)), parse_operand(m.group(2)), m.group(3)[1:-1], m.group(5))
        m = re.fullmatch(r'assert\((!?)(.+?), (.*)\) -> \[success: (bb\d+), .+\];', t, re.S)
        if m:
            ops = split_top(m.group(2) + ', ' + m.group(3))
            return ('assert', bool(m.group(1)), parse_operand(ops[0]), ', '.join(ops[1:]), m.group(4))
    # calls
    k = find_assign(t)
    dst, rest = (t[:k], t[k + 3:]) if k >= 0 else (None, t)
    m = re.fullmatch(r'(.+\)) -> (\[.+\]|unwind .+);', rest, re.S)
    if m:
        expr, tg = m.groups()
        k = find_call_paren(expr)
        callee, args = expr[:k], expr[k + 1:-1]
        targets = parse_targets(tg) if tg.startswith('[') else {}
        return ('call', parse_place(dst) if dst else None, callee.strip(),
                [parse_operand(x) for x in split_top(args)], targets.get('return'))
    raise ValueError('term ' + t)

# ----------------------------------------------------------------------------------- functions


class Fn:
    def __init__(self, name, header, params, ret, blocks, locals_, raw_blocks):
        self.name, self.header, self.params, self.ret = name, header, params, ret
        self.blocks, self.locals, self.raw_blocks = blocks, locals_, raw_blocks
        self.impl_type = self.impl_trait = None    # filled by Program from the source line
        self.short = name
        self.nblocks = len(blocks)

    def __repr__(self):
        return '<fn %s>' % self.name


# (the header never spans lines: a one-line `const N: T = const V;` item must not swallow the function that follows it)
_FN_RE = re.compile(r'^(fn|const|static(?: mut)?) ([^\n]+?) (?:\{|= \{)\n(.*?)^\}', re.S | re.M)
_CONST1_RE = re.compile(r'^const ([^\n:]+): [^\n=]+ = const ([^\n]+);$', re.M)
_BB_RE = re.compile(r'^    (bb\d+)(?: \(cleanup\))?: \{\n(.*?)^    \}', re.S | re.M)
_LOCAL_RE = re.compile(r'^\s*let (?:mut )?(_\d+): (.+);$', re.M)


def _join_multiline(body):
    """statements are one per line except when a string literal contains a newline; re-join those"""
    lines, cur = [], None
    for ln in body.split('\n'):
        if cur is not None:
            cur += '\n' + ln
            if ln.rstrip().endswith(';') and cur.count('"') % 2 == 0:
                lines.append(cur.strip()); cur = None
            continue
        s = ln.strip()
        if not s:
            continue
        if s.count('"') % 2 == 1 and not s.endswith(';'):
            cur = s
        else:
            lines.append(s)
    if cur is not None:
        lines.append(cur.strip())
    return lines


def parse_mir(text):
    fns, consts, order = {}, {}, []
    for m in _FN_RE.finditer(text):
        kind, header, body = m.groups()
        raw_blocks, blocks = {}, {}
        for bm in _BB_RE.finditer(body):
            lines = _join_multiline(bm.group(2))
            raw_blocks[bm.group(1)] = lines
        locals_ = dict(_LOCAL_RE.findall(body))
        if kind == 'fn':
            pm = re.search(r'\((_1: |\) -> |\)$)', header)
            name = header[:pm.start()]
            rest = header[pm.start():]
            depth = 0
            for i, ch in enumerate(rest):
                if ch == '(':
                    depth += 1
                elif ch == ')':
                    depth -= 1
                    if depth == 0:
                        break
            plist = rest[1:i]
            ret = rest[i + 1:].strip()
            ret = ret[3:].strip() if ret.startswith('->') else '()'
            params = []
            for p in split_top(plist):
                pn, pt = p.split(': ', 1)
                params.append((pn, pt))
                locals_[pn] = pt
            locals_['_0'] = ret
            f = Fn(name, header, params, ret, blocks, locals_, raw_blocks)
            fns.setdefault(name, []).append(f)
            order.append(f)
        else:
            pm = re.match(r'(.+::promoted\[\d+\])', header)
            # `path::<impl at file.rs:35:1: 37:50>::NAME: Type`: the name ends at the first ': ' that is not inside a span
            name = pm.group(1) if pm else re.split(r': (?=\D)', header, maxsplit=1)[0]
            f = Fn(name, header, [], header[len(name) + 2:], blocks, locals_, raw_blocks)
            consts.setdefault(name, []).append(f)
            order.append(f)
        f.kind = kind
        f.pos = m.start()
    return fns, consts, order


def compile_fn(f):
    """parse statements lazily (first execution); raises ValueError on unknown syntax"""
    if f.blocks:
        return
    for bb, lines in f.raw_blocks.items():
        stmts = []
        for ln in lines[:-1]:
            st = parse_stmt(ln)
            if st is not None:
                stmts.append(st)
        f.blocks[bb] = (stmts, parse_term(lines[-1]))
