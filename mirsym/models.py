"""Environment models: contract-level replacements for callees that are not in the crate's MIR.

Every model used by a run is listed in that run's evidence (Stats.models_used).  A callee that
matches no model raises Unmodelled -> the check is inconclusive (exit 2), never a pass.
"""
import re
import z3

from .values import *   # noqa
from .parser import strip_generics

_MODELS = []     # (compiled regex, function)
_CACHE = {}


def model(pattern):
    rx = re.compile(pattern, re.S)

    def deco(fn):
        _MODELS.append((rx, fn))
        return fn
    return deco


def call_model(ex, callee, args):
    ent = _CACHE.get(callee)
    if ent is None:
        for rx, fn in _MODELS:
            m = rx.fullmatch(callee)
            if m:
                ent = _CACHE[callee] = (fn, m)
                break
        else:
            raise Unmodelled('call ' + callee)
    return ent[0](ex, callee, args, ent[1])


d = deref


def as_S(v):
    v = deref(v)
    if type(v) is S:
        return v
    if isinstance(v, (tuple, list)):
        return S(v)
    if isinstance(v, ArcObj):
        return as_S(v.cell[0])
    if type(v) is Adt and v.name == 'Box':
        return as_S(v.extra[0])
    if type(v) is Adt and v.name == 'Cow':
        return as_S(v.fields[0])
    raise Unmodelled('expected string/bytes, got %r' % (v,))


def good(v):
    return v.variant in ('Ok', 'Some')


# ------------------------------------------------------------------------------------------ conversions, smart pointers

@model(r"<(&?(?:'\w+ )?(?:mut )?str|&?String|Arc<str>|&?Arc<str>|&&str|Box<str>) as (Into|From|ToString|AsRef|Clone|Borrow|ToOwned|Deref)(<.*>)?>::\w+")
def m_str_conv(ex, c, a, m):
    return as_S(a[0])


@model(r"<impl (AsRef<str>|Into<String>) as \1>::\w+|String::as_str|<C as ToString>::to_string|String::as_bytes|core::str::<impl str>::as_bytes|String::into_bytes|String::as_mut_str|<str as AsRef<\[u8\]>>::as_ref|<String as AsRef<\[u8\]>>::as_ref|String::from_utf8_unchecked|core::str::from_utf8_unchecked|core::str::<impl str>::to_string|core::str::<impl str>::to_owned|String::from|String::into_boxed_str|core::str::<impl str>::into_string|String::clone")
def m_str_conv2(ex, c, a, m):
    v = d(a[0])
    if type(v) is Adt and v.name == 'VfsErrorKind':
        raise Unmodelled('Display of VfsErrorKind via ToString')
    return as_S(v)


@model(r'<Vec<u8> as (Clone|AsRef<\[u8\]>|Deref|Borrow<\[u8\]>)>::\w+|Vec::<u8>::as_slice|<\[u8\] as ToOwned>::to_owned|core::slice::<impl \[u8\]>::to_vec|std::slice::<impl \[u8\]>::to_vec|<&\[u8\] as Into<Vec<u8>>>::into|<Vec<u8> as From<&\[u8\]>>::from|<&mut \[u8\] as Deref(Mut)?>::deref(_mut)?')
def m_bytes_conv(ex, c, a, m):
    if c.endswith('deref_mut') or c.endswith('::deref') or 'as_slice' in c and isinstance(a[0], Ref):
        v = a[0]
        while isinstance(v, Ref) and isinstance(v.get(), Ref):
            v = v.get()
        return v if isinstance(v, Ref) else ValRef(as_S(v))
    return as_S(a[0])


@model(r'<Arc<(Vec<u8>)> as (Deref|AsRef<.+>)>::\w+')
def m_arc_vec_deref(ex, c, a, m):
    arc = d(a[0])
    return Ref(arc.cell, 0)


@model(r'<Arc<.+> as (Deref|AsRef<.+>|Borrow<.+>)>::\w+')
def m_arc_deref(ex, c, a, m):
    arc = d(a[0])
    if isinstance(arc, ArcObj):
        if arc.tag == 'lock':
            return ValRef(arc)          # Arc<RwLock<T>>: the lock object is the identity
        return Ref(arc.cell, 0)
    return ValRef(arc) if not isinstance(a[0], Ref) else a[0]


@model(r'<(Box|&|&mut )<?.+>? as (Deref|DerefMut|AsRef<.+>|AsMut<.+>)>::\w+')
def m_box_deref(ex, c, a, m):
    v = d(a[0])
    if type(v) is Adt and v.name == 'Box':
        return Ref(v.extra, 0)
    return a[0]


@model(r'Box::<.+>::new|Box::<.+>::pin|Pin::<Box<.+>>::new|<Box<.+> as From<.+>>::from|Box::<.+>::into_pin')
def m_box_new(ex, c, a, m):
    v = a[0]
    if type(v) is Adt and v.name == 'Box':
        return v
    return new_box(v)


@model(r'Arc::<.+>::new|std::sync::RwLock::<.+>::new|std::sync::Mutex::<.+>::new|<Arc<.+> as From<.+>>::from|RwLock::<.+>::new|async_std::sync::RwLock::<.+>::new')
def m_arc_new(ex, c, a, m):
    v = a[0]
    if ('RwLock' in c.split('::new')[0] or 'Mutex' in c.split('::new')[0]) and not c.startswith('Arc'):
        return ArcObj(v, 'lock')
    if isinstance(v, ArcObj) and v.tag == 'lock':
        return v              # Arc<RwLock<T>> : one identity
    if type(v) is S and 'str' in c:
        return v
    return ArcObj(v, 'arc')


@model(r'<Arc<.+> as Clone>::clone')
def m_arc_clone(ex, c, a, m):
    return d(a[0])


@model(r'<(str|String|\[u8\]|Vec<u8>) as Index(Mut)?<RangeFull>>::index(_mut)?')
def m_index_full(ex, c, a, m):
    return a[0]


@model(r'(std::thread::)?panicking')
def m_panicking(ex, c, a, m):
    return False        # the engine ends a path at a panic: no destructor ever runs during unwinding


@model(r'Arc::<.+>::make_mut')
def m_arc_make_mut(ex, c, a, m):
    # clone-on-write: the engine keeps no reference counts, so it always takes the cloning branch (the two branches differ
    # only in identity, which Arc::ptr_eq alone could observe)
    r = a[0]
    arc = d(r)
    if not isinstance(arc, ArcObj) or not isinstance(r, Ref):
        raise Unmodelled('Arc::make_mut on %r' % (arc,))
    fresh = ArcObj(copyval(arc.cell[0]), arc.tag)
    r.set(fresh)
    return Ref(fresh.cell, 0)


@model(r'Arc::<.+>::ptr_eq')
def m_arc_ptr_eq(ex, c, a, m):
    return d(a[0]) is d(a[1])


@model(r'<Arc<Vec<u8>> as Default>::default')
def m_arc_default(ex, c, a, m):
    return ArcObj(S(), 'arc')


@model(r'<(String|Vec<.+>|&str) as Default>::default|String::new|String::with_capacity|Vec::<u8>::new|Vec::<u8>::with_capacity')
def m_str_default(ex, c, a, m):
    return S()


# ------------------------------------------------------------------------------------------ locks

def _acquire(ex, lock, mode):
    sched = ex.hooks.get('sched')
    if sched is not None:
        sched(ex, lock, mode)          # may switch threads; returns when the lock can be taken
    if mode == 'w':
        if lock.writer is not None or lock.readers:
            raise Deadlock('write lock requested while the lock is held (%s)' % ('writer' if lock.writer is not None else 'reader'))
        lock.writer = ex.thread
    else:
        if lock.writer is not None:
            raise Deadlock('read lock requested while a write guard is alive')
        lock.readers += 1
        lock.rowners.append(ex.thread)
    return Guard(lock, mode, ex.thread)


def release_guard(ex, g):
    if g.released:
        return
    g.released = True
    if g.mode == 'w':
        g.lock.writer = None
    else:
        g.lock.readers -= 1
        if g.owner in g.lock.rowners:
            g.lock.rowners.remove(g.owner)
    h = ex.hooks.get('released')
    if h is not None:
        h(ex, g.lock)


@model(r'std::sync::RwLock::<.+>::(read|write)')
def m_rwlock(ex, c, a, m):
    lock = d(a[0])
    if not isinstance(lock, ArcObj):
        raise Unmodelled('lock object %r' % (lock,))
    return Ok(_acquire(ex, lock, 'w' if m.group(1) == 'write' else 'r'))


@model(r'std::sync::Mutex::<.+>::lock')
def m_mutex_lock(ex, c, a, m):
    # std::sync::Mutex = the exclusive half of the lock model (yield point before the acquisition; a second acquisition by
    # the holder is the documented deadlock/panic)
    lock = d(a[0])
    if not isinstance(lock, ArcObj):
        raise Unmodelled('lock object %r' % (lock,))
    return Ok(_acquire(ex, lock, 'w'))


@model(r'<Arc<(std::sync::)?(Mutex|RwLock)<(.+)>> as Default>::default|<(std::sync::)?(Mutex|RwLock)<(.+)> as Default>::default')
def m_lock_default(ex, c, a, m):
    inner = m.group(3) or m.group(6)
    if inner.startswith(('HashSet<', 'HashMap<', 'std::collections::HashSet<', 'std::collections::HashMap<')):
        return ArcObj(SymMap(), 'lock')
    if inner.startswith(('String', 'Vec<')):
        return ArcObj(S(), 'lock')
    if inner in ('u64', 'usize', 'i64'):
        return ArcObj(z3.BitVecVal(0, 64), 'lock')
    if inner == 'bool':
        return ArcObj(False, 'lock')
    raise Unmodelled('Default for lock of %s' % inner)


@model(r'<std::sync::MutexGuard<.+> as Deref(Mut)?>::deref(_mut)?|<std::sync::RwLock(Read|Write)Guard<.+> as Deref(Mut)?>::deref(_mut)?|<async_std::sync::RwLock(Read|Write)Guard<.+> as Deref(Mut)?>::deref(_mut)?')
def m_guard_deref(ex, c, a, m):
    g = d(a[0])
    return Ref(g.lock.cell, 0)


# ------------------------------------------------------------------------------------------ Option / Result

@model(r'(Result|Option)::<.*>::(unwrap|expect)')
def m_unwrap(ex, c, a, m):
    v = a[0]
    if v.variant in ('Err', 'None'):
        ex.stats.panics += 1
        raise Panic('called `%s::%s()` on %s' % (m.group(1), m.group(2), 'a `None` value' if v.variant == 'None' else 'an `Err` value'),
                    ex.cur_fn.short if ex.cur_fn else '')
    return v.fields[0]


@model(r'<(Result|Option)<.*> as Try>::branch')
def m_try_branch(ex, c, a, m):
    v = a[0]
    if good(v):
        return Adt('ControlFlow', 'Continue', [v.fields[0]])
    return Adt('ControlFlow', 'Break', [v])


def convert_error(ex, e, src, tgt):
    """From conversion used by `?`"""
    s, t = strip_generics(src).split('::')[-1], strip_generics(tgt).split('::')[-1]
    if s == t:
        return e
    if s == 'Error' and 'io' in src:
        s = 'Error'
    f = ex.resolve('<%s as From<%s>>::from' % (t, s), [e])
    if f is None:
        raise Unmodelled('error conversion %s -> %s' % (src, tgt))
    return ex.run_fn(f, [e])


@model(r'<(Result|Option)<(.*)> as FromResidual<(Result|Option)<Infallible(?:, (.+))?>>>::from_residual')
def m_from_residual(ex, c, a, m):
    if m.group(1) == 'Option':
        return NONE()
    e = a[0].fields[0]
    # target error type: last top-level generic argument of Result<.., E>
    from .parser import split_top
    tgt = split_top(m.group(2))[-1]
    return Err(convert_error(ex, e, m.group(4), tgt))


@model(r'<(\w+) as Into<(\w+)>>::into')
def m_into(ex, c, a, m):
    f = ex.resolve('<%s as From<%s>>::from' % (m.group(2), m.group(1)), a)
    if f is None:
        raise Unmodelled('call ' + c)
    return ex.run_fn(f, a)


@model(r'<std::io::Error as Into<VfsError>>::into')
def m_ioerr_into(ex, c, a, m):
    return ex.run_fn(ex.resolve('<VfsError as From<std::io::Error>>::from', a), a)


@model(r'(OnceLock|OnceCell|LazyLock)::<.*?>::(new|get_or_init|get|set)(::<.*>)?')
def m_oncelock(ex, c, a, m):
    """std::sync::OnceLock / OnceCell as an Option cell (single-threaded contract: initialised at most once)"""
    op = m.group(2)
    if op == 'new':
        if m.group(1) == 'LazyLock':
            return Adt('LazyLock', None, [NONE(), a[0]])
        return Adt('OnceLock', None, [NONE()])
    cell = deref(a[0])
    if op == 'get':
        return Some(Ref(cell.fields, 0).field(0)) if cell.fields[0].variant == 'Some' else NONE()
    if op == 'set':
        if cell.fields[0].variant == 'Some':
            return Err(a[1])
        cell.fields[0] = Some(a[1])
        return Ok(UNIT)
    if cell.fields[0].variant != 'Some':
        v = ex.call_closure(a[1], [])
        if cell.fields[0].variant != 'Some':
            cell.fields[0] = Some(v)
    return Ref(cell.fields, 0).field(0)


@model(r'(Result|Option)::<.*?>::(map_err|map|ok_or|ok_or_else|unwrap_or|unwrap_or_default|unwrap_or_else|is_some|is_none|is_ok|is_err|ok|err|and_then|as_ref|as_mut|take|cloned|copied|as_deref|or_else|map_or|is_some_and|or|and|iter|into_iter|flatten|filter|is_ok_and|is_err_and|get_or_insert_with|get_or_insert|insert|replace)(::<.*>)?')
def m_combinators(ex, c, a, m):
    k, op = m.group(1), m.group(2)
    v = d(a[0])
    g = good(v)
    if op == 'map_err':
        return v if g else Err(ex.call_closure(a[1], [v.fields[0]]))
    if op == 'map':
        return Adt(k, v.variant, [ex.call_closure(a[1], [v.fields[0]])]) if g else v
    if op == 'and_then':
        return ex.call_closure(a[1], [v.fields[0]]) if g else v
    if op == 'ok_or':
        return Ok(v.fields[0]) if g else Err(a[1])
    if op == 'ok_or_else':
        return Ok(v.fields[0]) if g else Err(ex.call_closure(a[1], []))
    if op == 'unwrap_or':
        return v.fields[0] if g else a[1]
    if op == 'unwrap_or_default':
        if g:
            return v.fields[0]
        if 'String' in c or 'Vec' in c or 'str' in c:
            return S()
        if re.search(r'Option::<(u|i)(size|\d+)>', c):
            return 0
        raise Unmodelled('unwrap_or_default for ' + c)
    if op == 'unwrap_or_else':
        return v.fields[0] if g else ex.call_closure(a[1], [] if k == 'Option' else [v.fields[0]])
    if op == 'or_else':
        return v if g else ex.call_closure(a[1], [] if k == 'Option' else [v.fields[0]])
    if op == 'map_or':
        return ex.call_closure(a[2], [v.fields[0]]) if g else a[1]
    if op == 'is_some_and':
        return ex.call_closure(a[1], [v.fields[0]]) if g else False
    if op == 'or':
        return v if g else a[1]
    if op == 'and':
        return a[1] if g else v
    if op in ('iter', 'into_iter'):
        return PyIter([v.fields[0]] if g else [])
    if op == 'flatten':
        return v.fields[0] if g else (NONE() if k == 'Option' else v)
    if op == 'filter':
        return v if g and ex.branch(ex.call_closure(a[1], [ValRef(v.fields[0])])) else NONE()
    if op in ('is_ok_and',):
        return ex.call_closure(a[1], [v.fields[0]]) if g else False
    if op in ('is_err_and',):
        return ex.call_closure(a[1], [v.fields[0]]) if not g else False
    if op in ('is_some', 'is_ok'):
        return g
    if op in ('is_none', 'is_err'):
        return not g
    if op == 'ok':
        return Some(v.fields[0]) if g else NONE()
    if op == 'err':
        return NONE() if g else Some(v.fields[0])
    if op in ('as_ref', 'as_mut', 'as_deref'):
        if not g and k == 'Option':
            return NONE()
        base = a[0] if isinstance(a[0], Ref) else ValRef(v)
        return Adt(k, v.variant, [base.field(0)])
    if op in ('cloned', 'copied'):
        return Some(copyval(d(v.fields[0]))) if g else v
    if op == 'take':
        a[0].set(NONE())
        return v
    if op in ('get_or_insert_with', 'get_or_insert', 'insert', 'replace') and k == 'Option' and isinstance(a[0], Ref):
        if op == 'replace':
            a[0].set(Some(a[1]))
            return v
        if op == 'insert' or not g:
            nv = ex.call_closure(a[1], []) if op == 'get_or_insert_with' else a[1]
            a[0].set(Some(nv))
        return a[0].field(0)
    raise Unmodelled('call ' + c)


# ------------------------------------------------------------------------------------------ strings

def _char_bytes(cp):
    return tuple(chr(cp).encode('utf-8'))


def _decode_chars(ex, s):
    """UTF-8 decoding of a (valid, possibly symbolic) str: list of (byte offset, code point); the width of each
    character is decided by the solver from its lead byte"""
    out = []
    i, n = 0, len(s)
    while i < n:
        b = s[i]
        if type(b) is int:
            w = 1 if b < 0x80 else 2 if b < 0xE0 else 3 if b < 0xF0 else 4
        elif ex.branch(z3.ULT(b, 0x80)):
            w = 1
        elif ex.branch(z3.ULT(b, 0xE0)):
            w = 2
        elif ex.branch(z3.ULT(b, 0xF0)):
            w = 3
        else:
            w = 4
        if i + w > n:
            raise Unmodelled('truncated UTF-8 sequence in a str (the harness must assume valid UTF-8)')
        bs = s[i:i + w]
        if all(type(x) is int for x in bs):
            cp = ord(bytes(bs).decode('utf-8', 'replace')[0])
        else:
            z = [z3.ZeroExt(24, bv(x, 8)) for x in bs]
            if w == 1:
                cp = z[0]
            elif w == 2:
                cp = ((z[0] & 0x1F) << 6) | (z[1] & 0x3F)
            elif w == 3:
                cp = ((z[0] & 0x0F) << 12) | ((z[1] & 0x3F) << 6) | (z[2] & 0x3F)
            else:
                cp = ((z[0] & 0x07) << 18) | ((z[1] & 0x3F) << 12) | ((z[2] & 0x3F) << 6) | (z[3] & 0x3F)
        out.append((i, cp))
        i += w
    return out


@model(r'core::str::<impl str>::(chars|char_indices)')
def m_str_chars(ex, c, a, m):
    items = _decode_chars(ex, as_S(a[0]))
    if m.group(1) == 'chars':
        return PyIter([cp for _, cp in items])
    return PyIter([Tup(i, cp) for i, cp in items])


def _is_char_boundary(ex, s, i):
    """Rust panics when slicing inside a multi-byte character"""
    if i == 0 or i == len(s):
        return True
    b = s[i]
    if type(b) is int:
        return (b & 0xC0) != 0x80
    return z3.Extract(7, 6, b) != z3.BitVecVal(2, 2)


def _slice(ex, s, lo, hi, what):
    n = len(s)
    lo_c = ex.concretize(lo, n)
    hi_c = ex.concretize(hi, n)
    if lo_c is None or hi_c is None or lo_c > hi_c:
        ex.stats.panics += 1
        raise Panic('%s index out of range' % what, ex.cur_fn.short if ex.cur_fn else '')
    return lo_c, hi_c


def _str_slice(ex, s, lo, hi):
    lo, hi = _slice(ex, s, lo, hi, 'str slice')
    for i in (lo, hi):
        if not ex.branch(_is_char_boundary(ex, s, i)):
            ex.stats.panics += 1
            raise Panic('byte index %d is not a char boundary' % i, ex.cur_fn.short if ex.cur_fn else '')
    return S(s[lo:hi])


@model(r'<(str|String) as Index<(?:std::ops::)?(RangeTo|RangeFrom|Range|RangeFull|RangeInclusive|RangeToInclusive)<usize>>>::index')
def m_str_index(ex, c, a, m):
    s = as_S(a[0])
    r = a[1]
    kind = m.group(2)
    if kind == 'RangeTo':
        return _str_slice(ex, s, 0, r.fields[0])
    if kind == 'RangeFrom':
        return _str_slice(ex, s, r.fields[0], len(s))
    if kind == 'Range':
        return _str_slice(ex, s, r.fields[0], r.fields[1])
    if kind == 'RangeFull':
        return s
    raise Unmodelled('call ' + c)


@model(r'core::str::<impl str>::(get|split_at|split_at_checked)(::<.*>)?')
def m_str_get(ex, c, a, m):
    s = as_S(a[0])
    if m.group(1) == 'split_at':
        mid = ex.concretize(a[1], len(s))
        if mid is None or not ex.branch(_is_char_boundary(ex, s, mid)):
            ex.stats.panics += 1
            raise Panic('failed to slice string (split_at)', ex.cur_fn.short if ex.cur_fn else '')
        return Tup(S(s[:mid]), S(s[mid:]))
    raise Unmodelled('call ' + c)


@model(r'core::str::<impl str>::is_empty|String::is_empty|Vec::<u8>::is_empty|core::slice::<impl \[u8\]>::is_empty')
def m_is_empty(ex, c, a, m):
    return len(as_S(a[0])) == 0


@model(r'core::str::<impl str>::len|String::len|Vec::<u8>::len|core::slice::<impl \[u8\]>::len|String::capacity')
def m_len(ex, c, a, m):
    return len(as_S(a[0]))


def _pat(a):
    """pattern argument: char (int code point) or string -> bytes tuple"""
    p = d(a)
    if type(p) is int:
        return _char_bytes(p)
    return tuple(as_S(p))


def _match_at(s, i, p):
    if i + len(p) > len(s) or i < 0:
        return False
    return zand([beq(s[i + k], p[k]) for k in range(len(p))])


@model(r'core::str::<impl str>::starts_with::<.+>')
def m_starts_with(ex, c, a, m):
    return _match_at(as_S(a[0]), 0, _pat(a[1]))


@model(r'core::str::<impl str>::ends_with::<.+>')
def m_ends_with(ex, c, a, m):
    s, p = as_S(a[0]), _pat(a[1])
    return _match_at(s, len(s) - len(p), p)


@model(r'core::str::<impl str>::contains::<.+>')
def m_contains(ex, c, a, m):
    s, p = as_S(a[0]), _pat(a[1])
    if not p:
        return True
    return zor([_match_at(s, i, p) for i in range(len(s) - len(p) + 1)])


@model(r'core::str::<impl str>::find::<.+>')
def m_find(ex, c, a, m):
    s, p = as_S(a[0]), _pat(a[1])
    for i in range(len(s) - len(p) + 1):
        if ex.branch(_match_at(s, i, p)):
            return Some(i)
    return NONE()


@model(r'core::str::<impl str>::rfind::<.+>')
def m_rfind(ex, c, a, m):
    s, p = as_S(a[0]), _pat(a[1])
    for i in range(len(s) - len(p), -1, -1):
        if ex.branch(_match_at(s, i, p)):
            return Some(i)
    return NONE()


@model(r'core::str::<impl str>::(matches|rmatches)::<.+>')
def m_matches(ex, c, a, m):
    s, p = as_S(a[0]), _pat(a[1])
    if not p:
        raise Unmodelled('matches with an empty pattern')
    out, i = [], 0
    while i + len(p) <= len(s):
        if ex.branch(_match_at(s, i, p)):
            out.append(S(s[i:i + len(p)])); i += len(p)
        else:
            i += 1
    if m.group(1) == 'rmatches':
        out.reverse()
    return PyIter(out)


_ASCII_WS = (0x20, 0x09, 0x0a, 0x0b, 0x0c, 0x0d)


@model(r'core::str::<impl str>::(trim|trim_start|trim_end)')
def m_trim(ex, c, a, m):
    """whitespace trimming; only ASCII white space is modelled (a multi-byte white-space character is outside the model)"""
    s = as_S(a[0])
    op = m.group(1)

    def is_ws(b):
        if type(b) is int:
            if b >= 0x80:
                # U+0085, U+00A0, U+1680, U+2000.. are White_Space as well
                raise Unmodelled('str::trim on non-ASCII bytes')
            return b in _ASCII_WS
        if ex.branch(z3.UGE(b, 0x80)):
            raise Unmodelled('str::trim on non-ASCII bytes')
        return ex.branch(zor([b == z3.BitVecVal(w, 8) for w in _ASCII_WS]))
    lo, hi = 0, len(s)
    if op in ('trim', 'trim_start'):
        while lo < hi and is_ws(s[lo]):
            lo += 1
    if op in ('trim', 'trim_end'):
        while hi > lo and is_ws(s[hi - 1]):
            hi -= 1
    return S(s[lo:hi])


@model(r'core::str::<impl str>::(match_indices|rmatch_indices)::<.+>')
def m_match_indices(ex, c, a, m):
    """(index, matched slice) of every non-overlapping match, from the front or from the back"""
    s, p = as_S(a[0]), _pat(a[1])
    out = []
    if not p:
        raise Unmodelled('match_indices with an empty pattern')
    if m.group(1) == 'match_indices':
        i = 0
        while i + len(p) <= len(s):
            if ex.branch(_match_at(s, i, p)):
                out.append(Tup(i, S(s[i:i + len(p)]))); i += len(p)
            else:
                i += 1
    else:
        i = len(s) - len(p)
        while i >= 0:
            if ex.branch(_match_at(s, i, p)):
                out.append(Tup(i, S(s[i:i + len(p)]))); i -= len(p)
            else:
                i -= 1
    return PyIter(out)


def _split(ex, s, p):
    parts, cur, i = [], [], 0
    n, k = len(s), len(p)
    while i < n:
        if i + k <= n and ex.branch(_match_at(s, i, p)):
            parts.append(S(cur)); cur = []; i += k
        else:
            cur.append(s[i]); i += 1
    parts.append(S(cur))
    return parts


@model(r'core::str::<impl str>::split::<.+>')
def m_split(ex, c, a, m):
    return PyIter(_split(ex, as_S(a[0]), _pat(a[1])))


@model(r'core::str::<impl str>::rsplitn::<.+>')
def m_rsplitn(ex, c, a, m):
    s, n, p = as_S(a[0]), a[1], _pat(a[2])
    if type(n) is not int:
        raise Unmodelled('rsplitn with symbolic n')
    out, end = [], len(s)
    i = len(s) - len(p)
    while i >= 0 and len(out) < n - 1:
        if ex.branch(_match_at(s, i, p)):
            out.append(S(s[i + len(p):end])); end = i; i -= len(p)
        else:
            i -= 1
    if n > 0:
        out.append(S(s[:end]))
    return PyIter(out)


@model(r'core::str::<impl str>::(rsplit_once|split_once)::<.+>')
def m_split_once(ex, c, a, m):
    s, p = as_S(a[0]), _pat(a[1])
    rng = range(len(s) - len(p), -1, -1) if m.group(1) == 'rsplit_once' else range(len(s) - len(p) + 1)
    for i in rng:
        if ex.branch(_match_at(s, i, p)):
            return Some(Tup(S(s[:i]), S(s[i + len(p):])))
    return NONE()


@model(r'core::str::<impl str>::(trim_start_matches|trim_end_matches|strip_prefix|strip_suffix)::<.+>')
def m_trim(ex, c, a, m):
    s, p = as_S(a[0]), _pat(a[1])
    op = m.group(1)
    if not p:
        return s if op.startswith('trim') else Some(s)
    if op == 'trim_start_matches':
        while len(s) >= len(p) and ex.branch(_match_at(s, 0, p)):
            s = S(s[len(p):])
        return s
    if op == 'trim_end_matches':
        while len(s) >= len(p) and ex.branch(_match_at(s, len(s) - len(p), p)):
            s = S(s[:len(s) - len(p)])
        return s
    if op == 'strip_prefix':
        return Some(S(s[len(p):])) if len(s) >= len(p) and ex.branch(_match_at(s, 0, p)) else NONE()
    return Some(S(s[:len(s) - len(p)])) if len(s) >= len(p) and ex.branch(_match_at(s, len(s) - len(p), p)) else NONE()


@model(r'<&?(str|String|&str|&String|Arc<str>) as PartialEq(<.+>)?>::(eq|ne)|<\[u8\] as PartialEq>::(eq|ne)|<Vec<u8> as PartialEq(<.+>)?>::(eq|ne)')
def m_str_eq(ex, c, a, m):
    r = seq_eq(as_S(a[0]), as_S(a[1]))
    return r if c.endswith('::eq') else znot(r)


@model(r'<String as AddAssign<&str>>::add_assign|String::push_str|Vec::<u8>::extend_from_slice|<Vec<u8> as Extend<&u8>>::extend::<.+>')
def m_push_str(ex, c, a, m):
    a[0].set(S(as_S(a[0]) + as_S(a[1])))
    return UNIT


@model(r'String::push|Vec::<u8>::push')
def m_push_char(ex, c, a, m):
    v = a[1]
    add = _char_bytes(v) if c == 'String::push' and type(v) is int else (v,)
    a[0].set(S(as_S(a[0]) + tuple(add)))
    return UNIT


@model(r'<String as Add<&str>>::add')
def m_str_add(ex, c, a, m):
    return S(as_S(a[0]) + as_S(a[1]))


@model(r'String::from_utf8|core::str::from_utf8|String::from_utf8_lossy')
def m_from_utf8(ex, c, a, m):
    s = as_S(a[0])
    okc = utf8_valid(ex, s)
    if ex.branch(okc):
        return Ok(s)
    return Err(Adt('FromUtf8Error', None, [s]))


def utf8_valid(ex, s):
    """decide UTF-8 validity of a (partly symbolic) byte string by forking per lead byte"""
    i, n = 0, len(s)

    def inr(b, lo, hi):
        if type(b) is int:
            return lo <= b <= hi
        return z3.And(z3.UGE(b, lo), z3.ULE(b, hi))
    while i < n:
        b = s[i]
        if ex.branch(inr(b, 0x00, 0x7F)):
            i += 1
            continue
        if ex.branch(inr(b, 0xC2, 0xDF)):
            need = [(0x80, 0xBF)]
        elif ex.branch(inr(b, 0xE0, 0xE0)):
            need = [(0xA0, 0xBF), (0x80, 0xBF)]
        elif ex.branch(zor([inr(b, 0xE1, 0xEC), inr(b, 0xEE, 0xEF)])):
            need = [(0x80, 0xBF), (0x80, 0xBF)]
        elif ex.branch(inr(b, 0xED, 0xED)):
            need = [(0x80, 0x9F), (0x80, 0xBF)]
        elif ex.branch(inr(b, 0xF0, 0xF0)):
            need = [(0x90, 0xBF), (0x80, 0xBF), (0x80, 0xBF)]
        elif ex.branch(inr(b, 0xF1, 0xF3)):
            need = [(0x80, 0xBF), (0x80, 0xBF), (0x80, 0xBF)]
        elif ex.branch(inr(b, 0xF4, 0xF4)):
            need = [(0x80, 0x8F), (0x80, 0xBF), (0x80, 0xBF)]
        else:
            return False
        if i + len(need) > n - 1:
            return False
        for k, (lo, hi) in enumerate(need):
            if not ex.branch(inr(s[i + 1 + k], lo, hi)):
                return False
        i += 1 + len(need)
    return True


# ------------------------------------------------------------------------------------------ slices / Vec

@model(r'<(?:\[.+\]|Vec<.+>) as Index(Mut)?<usize>>::index(_mut)?')
def m_index(ex, c, a, m):
    v = d(a[0])
    i = ex.concretize(a[1], len(v) - 1)
    if i is None:
        ex.stats.panics += 1
        raise Panic('index out of bounds', ex.cur_fn.short if ex.cur_fn else '')
    base = a[0]
    while isinstance(base.get(), Ref):
        base = base.get()
    return base.field(i)


@model(r'<(?:\[(?!u8\]).+\]|Vec<(?!u8>).+>) as Index(Mut)?<(?:std::ops::)?(RangeTo|RangeFrom|Range|RangeFull)<usize>>>::index(_mut)?')
def m_list_slice_index(ex, c, a, m):
    v = d(a[0])
    r, kind = a[1], m.group(2)
    n = len(v)
    lo, hi = 0, n
    if kind == 'RangeTo':
        hi = r.fields[0]
    elif kind == 'RangeFrom':
        lo = r.fields[0]
    elif kind == 'Range':
        lo, hi = r.fields[0], r.fields[1]
    lo, hi = _slice(ex, v, lo, hi, 'slice')
    return ValRef([Ref(v, i).get() for i in range(lo, hi)])


@model(r'<(?:\[u8\]|Vec<u8>) as Index(Mut)?<(?:std::ops::)?(RangeTo|RangeFrom|Range|RangeFull)<usize>>>::index(_mut)?')
def m_slice_index(ex, c, a, m):
    base = a[0]
    while isinstance(base.get(), Ref):
        base = base.get()
    s = base.get()
    r, kind = a[1], m.group(2)
    if kind == 'RangeTo':
        lo, hi = 0, r.fields[0]
    elif kind == 'RangeFrom':
        lo, hi = r.fields[0], len(s)
    elif kind == 'Range':
        lo, hi = r.fields[0], r.fields[1]
    else:
        lo, hi = 0, len(s)
    # Rust checks start <= end first ("slice index starts at N but ends at M"), then end <= len
    lo, hi = _slice(ex, s, lo, hi, 'slice')
    return SliceRef(base, lo, hi)


@model(r'core::slice::<impl \[.+\]>::(get|get_mut)::<usize>|Vec::<.+>::(get|get_mut)::<usize>')
def m_slice_get(ex, c, a, m):
    v = d(a[0])
    i = ex.concretize(a[1], len(v) - 1) if len(v) else None
    if i is None:
        return NONE()
    base = a[0]
    while isinstance(base.get(), Ref):
        base = base.get()
    return Some(base.field(i))


@model(r'core::slice::<impl \[u8\]>::copy_from_slice')
def m_copy_from_slice(ex, c, a, m):
    dst, src = a[0], as_S(a[1])
    if len(dst.get()) != len(src):
        ex.stats.panics += 1
        raise Panic('source slice length does not match destination slice length', ex.cur_fn.short if ex.cur_fn else '')
    dst.set(src)
    return UNIT


@model(r'Vec::<.+>::new|Vec::<.+>::with_capacity')
def m_vec_new(ex, c, a, m):
    return []


@model(r'Vec::<.+>::(len|is_empty|push|pop|truncate|clear|last|first|insert|remove|extend|reverse|as_slice|iter|contains|append|retain)(::<.*>)?|core::slice::<impl \[.+\]>::(len|is_empty|iter|last|first|contains|to_vec)|std::slice::<impl \[.+\]>::to_vec|<Vec<.+> as Clone>::clone|<Vec<.+> as Deref>::deref')
def m_vec(ex, c, a, m):
    op = m.group(1) or m.group(3)
    if op is None:
        op = 'to_vec' if ('to_vec' in c or 'Clone' in c) else 'deref'
    v = d(a[0])
    if type(v) is S:
        raise Unmodelled('byte-vector op ' + c)
    if op == 'len':
        return len(v)
    if op == 'is_empty':
        return len(v) == 0
    if op == 'push':
        v.append(a[1]); return UNIT
    if op == 'pop':
        return Some(v.pop()) if v else NONE()
    if op == 'truncate':
        n = ex.concretize(a[1], len(v))
        if n is not None:
            del v[n:]
        return UNIT
    if op == 'clear':
        del v[:]; return UNIT
    if op in ('last', 'first'):
        if not v:
            return NONE()
        return Some(Ref(v, len(v) - 1 if op == 'last' else 0))
    if op == 'to_vec':
        return [copyval(x) if type(x) is Adt and x.name != 'VfsPath' else clone_value(ex, x) for x in v]
    if op == 'deref' or op == 'as_slice':
        return a[0]
    if op == 'iter':
        return PyIter([Ref(v, i) for i in range(len(v))])
    if op == 'reverse':
        v.reverse(); return UNIT
    if op == 'insert':
        v.insert(a[1], a[2]); return UNIT
    if op == 'remove':
        if a[1] >= len(v):
            raise Panic('removal index out of bounds', ex.cur_fn.short)
        return v.pop(a[1])
    raise Unmodelled('call ' + c)


def clone_value(ex, x):
    """Clone::clone of a value: crate types run their derived clone from MIR"""
    x = deref(x)
    if type(x) is Adt and x.variant is None and not x.name.startswith('{'):
        f = ex.prog.by_trait_impl.get((x.name.split('::')[-1], 'Clone', 'clone'))
        if f is not None:
            return ex.run_fn(f, [Ref([x], 0)])
    if type(x) is Adt:
        return Adt(x.name, x.variant, [clone_value(ex, f_) for f_ in x.fields], x.extra)
    if type(x) is list:
        return [clone_value(ex, y) for y in x]
    return x


@model(r'<(Option|Result)<.+> as Clone>::clone|<(SystemTime|\(.*\)|u64|usize|bool) as Clone>::clone|<&.+ as Clone>::clone')
def m_clone_generic(ex, c, a, m):
    if c.startswith('<&'):
        return d(a[0]) if isinstance(d(a[0]), Ref) else a[0].get()
    return clone_value(ex, a[0])


@model(r'std::cmp::(min|max)::<.+>|core::cmp::(min|max)::<.+>|<usize as Ord>::(min|max)|<u64 as Ord>::(min|max)|std::cmp::Ord::(min|max)')
def m_minmax(ex, c, a, m):
    x, y = a[0], a[1]
    is_min = 'min' in c.split('::')[-1] or '::min' in c
    if type(x) is int and type(y) is int:
        return min(x, y) if is_min else max(x, y)
    w = x.size() if is_sym(x) else y.size()
    X, Y = bv(x, w), bv(y, w)
    # fork instead of building an ite: later uses (indices, lengths) want concrete structure
    if ex.branch(z3.ULE(X, Y)):
        return x if is_min else y
    return y if is_min else x


@model(r'std::mem::swap::<.+>|core::mem::swap::<.+>')
def m_swap(ex, c, a, m):
    x, y = a[0].get(), a[1].get()
    a[0].set(y); a[1].set(x)
    return UNIT


@model(r'std::mem::(replace|take)::<.+>|core::mem::(replace|take)::<.+>')
def m_replace(ex, c, a, m):
    old = a[0].get()
    if 'take' in c.split('::<')[0]:
        if type(old) is S:
            a[0].set(S())
        elif type(old) is list:
            a[0].set([])
        elif type(old) is Adt and old.name == 'Option':
            a[0].set(NONE())
        elif isinstance(old, Cursor):
            a[0].set(Cursor(S()))
        elif isinstance(old, ArcObj) and type(old.cell[0]) is S:
            a[0].set(ArcObj(S(), 'arc'))
        else:
            raise Unmodelled('mem::take of %r' % (old,))
    else:
        a[0].set(a[1])
    return old


@model(r'std::mem::drop::<.+>|core::mem::drop::<.+>|drop::<.+>')
def m_drop(ex, c, a, m):
    ex.drop_value(a[0])
    return UNIT


# ------------------------------------------------------------------------------------------ iterators

def iter_next(ex, it):
    it = deref(it)
    if type(it) is Adt and it.name == 'Box':
        return iter_next(ex, it.extra[0])
    if type(it) is PyIter:
        if it.pos >= len(it.items):
            return NONE()
        v = it.items[it.pos]
        it.pos += 1
        return Some(v)
    if type(it) is LazyIter:
        while True:
            if it.kind == 'take_while' and it.state == 'done':
                return NONE()
            r = iter_next(ex, it.inner)
            if r.variant == 'None':
                return r
            if it.kind == 'map':
                return Some(ex.call_closure(Ref([it.clo], 0), [r.fields[0]]))
            if it.kind == 'filter_map':
                o = ex.call_closure(Ref([it.clo], 0), [r.fields[0]])
                if o.variant == 'Some':
                    return o
            elif it.kind == 'filter':
                if ex.branch(ex.call_closure(Ref([it.clo], 0), [ValRef(r.fields[0])])):
                    return r
            elif it.kind == 'take_while':
                if ex.branch(ex.call_closure(Ref([it.clo], 0), [ValRef(r.fields[0])])):
                    return r
                it.state = 'done'
                return NONE()
            elif it.kind == 'skip_while':
                if it.state == 'passed' or not ex.branch(ex.call_closure(Ref([it.clo], 0), [ValRef(r.fields[0])])):
                    it.state = 'passed'
                    return r
            elif it.kind == 'map_while':
                o = ex.call_closure(Ref([it.clo], 0), [r.fields[0]])
                if o.variant == 'Some':
                    return o
                it.state = 'done'
                it.kind = 'take_while'
                return NONE()
            else:
                raise Unmodelled('lazy iter ' + it.kind)
    if type(it) is Adt:
        # crate iterator types implementing Iterator (WalkDirIterator, ...)
        f = ex.prog.by_trait_impl.get((it.name.split('::')[-1], 'Iterator', 'next'))
        if f is not None:
            return ex.run_fn(f, [Ref([it], 0)])
    raise Unmodelled('Iterator::next on %r' % (it,))


@model(r'<.+ as Iterator>::next|.* as Iterator>::next|<.+ as DoubleEndedIterator>::next_back')
def m_iter_next(ex, c, a, m):
    if 'next_back' in c:
        it = d(a[0])
        if type(it) is PyIter:
            if it.pos >= len(it.items):
                return NONE()
            return Some(it.items.pop())
        raise Unmodelled('call ' + c)
    return iter_next(ex, a[0])


@model(r'.* as IntoIterator>::into_iter')
def m_into_iter(ex, c, a, m):
    v = a[0]
    dv = d(v)
    if type(dv) is Adt and dv.name in ('Result', 'Option'):
        return PyIter([dv.fields[0]] if good(dv) else [])
    if isinstance(dv, SymMap):
        order = ex.hooks.get('map_order')
        items = list(dv.items)
        if order is not None:
            items = order(ex, items)
        if 'HashSet' in c or 'hash_set' in c:
            return PyIter([k for k, _ in items])
        return PyIter([Tup(k, val) for k, val in items])
    if type(dv) is list:
        if isinstance(v, Ref):       # &Vec<T> -> iterator of references
            return PyIter([Ref(dv, i) for i in range(len(dv))])
        return PyIter(dv)
    if type(dv) is S:
        return PyIter(list(dv))
    return v if not isinstance(v, Ref) else dv


@model(r'(std|core)::iter::from_fn::<.+>')
def m_from_fn(ex, c, a, m):
    """an iterator that calls the closure until it returns None (bounded by the engine's loop bound)"""
    out = []
    for _ in range(64):
        r = ex.call_closure(Ref([a[0]], 0) if not isinstance(a[0], Ref) else a[0], [])
        if r.variant == 'None':
            return PyIter(out)
        out.append(r.fields[0])
    raise Bound('from_fn iterator longer than 64 items')


@model(r'.* as Iterator>::(map|filter_map|filter|take_while|skip_while|map_while)::<.+>')
def m_iter_adapt(ex, c, a, m):
    return LazyIter(m.group(1), a[0], a[1])


def drain(ex, it):
    out = []
    while True:
        r = iter_next(ex, it)
        if r.variant == 'None':
            return out
        out.append(r.fields[0])


@model(r'.* as Iterator>::collect::<(.+)>')
def m_collect(ex, c, a, m):
    items = drain(ex, a[0])
    tgt = m.group(1)
    if tgt.startswith('Vec<'):
        return items
    if tgt.startswith('Result<Vec<'):
        out = []
        for x in items:
            if x.variant == 'Err':
                return x
            out.append(x.fields[0])
        return Ok(out)
    if tgt.startswith('String'):
        s = ()
        for x in items:
            s += tuple(as_S(x)) if not isinstance(x, int) else _char_bytes(x)
        return S(s)
    if tgt.startswith('HashSet<') or tgt.startswith('HashMap<'):
        mp = SymMap()
        for x in items:
            k, v = (x.fields if tgt.startswith('HashMap') else (x, True))
            _map_insert(ex, mp, as_S(k), v)
        return mp
    raise Unmodelled('collect into ' + tgt)


@model(r'.* as Iterator>::(count|last|any|all|for_each|find|position|fold|chain|enumerate|rev|skip|take|zip|peekable|cloned|copied|flatten|flat_map|nth|sum|max|min|by_ref)(::<.*>)?')
def m_iter_misc(ex, c, a, m):
    op = m.group(1)
    if op == 'by_ref':
        return a[0]
    if op == 'flatten':
        out = []
        for x in drain(ex, a[0]):
            dx = d(x)
            if type(dx) is Adt and dx.name in ('Result', 'Option'):
                if good(dx):
                    out.append(dx.fields[0])
            else:
                out += drain(ex, x)
        return PyIter(out)
    if op == 'flat_map':
        out = []
        for x in drain(ex, a[0]):
            out += drain(ex, ex.call_closure(a[1], [x]))
        return PyIter(out)
    if op == 'chain':
        return PyIter(drain(ex, a[0]) + drain(ex, a[1]))
    if op == 'count':
        return len(drain(ex, a[0]))
    if op == 'last':
        xs = drain(ex, a[0])
        return Some(xs[-1]) if xs else NONE()
    if op == 'any':
        for x in drain(ex, a[0]):
            if ex.branch(ex.call_closure(a[1], [x])):
                return True
        return False
    if op == 'all':
        for x in drain(ex, a[0]):
            if not ex.branch(ex.call_closure(a[1], [x])):
                return False
        return True
    if op == 'for_each':
        for x in drain(ex, a[0]):
            ex.call_closure(a[1], [x])
        return UNIT
    if op == 'rev':
        xs = drain(ex, a[0]); xs.reverse()
        return PyIter(xs)
    if op == 'enumerate':
        return PyIter([Tup(i, x) for i, x in enumerate(drain(ex, a[0]))])
    if op in ('cloned', 'copied'):
        return PyIter([clone_value(ex, x) for x in drain(ex, a[0])])
    if op == 'skip':
        return PyIter(drain(ex, a[0])[a[1]:])
    if op == 'take':
        return PyIter(drain(ex, a[0])[:a[1]])
    if op == 'find':
        for x in drain(ex, a[0]):
            if ex.branch(ex.call_closure(a[1], [ValRef(x)])):
                return Some(x)
        return NONE()
    if op == 'position':
        for i, x in enumerate(drain(ex, a[0])):
            if ex.branch(ex.call_closure(a[1], [x])):
                return Some(i)
        return NONE()
    if op == 'nth':
        xs = drain(ex, a[0])
        k = ex.concretize(a[1], len(xs))
        return Some(xs[k]) if k is not None and k < len(xs) else NONE()
    if op == 'zip':
        return PyIter([Tup(x, y) for x, y in zip(drain(ex, a[0]), drain(ex, a[1]))])
    raise Unmodelled('call ' + c)


@model(r'core::slice::<impl \[.+\]>::(iter|is_empty)|<std::slice::Iter<.+> as .+')
def m_slice_iter(ex, c, a, m):
    v = d(a[0])
    if c.endswith('is_empty'):
        return len(v) == 0
    return PyIter([Ref(v, i) for i in range(len(v))])


# ------------------------------------------------------------------------------------------ maps

def _map_find(ex, mp, k):
    for i, (kk, _) in enumerate(mp.items):
        if ex.branch(seq_eq(kk, k)):
            return i
    return None


def _map_insert(ex, mp, k, v):
    i = _map_find(ex, mp, k)
    if i is None:
        mp.items.append([S(k), v])
        return NONE()
    old = mp.items[i][1]
    mp.items[i][1] = v
    return Some(old)


@model(r'<(HashMap|BTreeMap)<.+> as Index(Mut)?<.+>>::index(_mut)?')
def m_map_index(ex, c, a, m):
    """map[key]: a reference to the value, panics when the key is missing"""
    mp = d(a[0])
    if not isinstance(mp, SymMap):
        raise Unmodelled('map receiver %r in %s' % (mp, c))
    i = _map_find(ex, mp, as_S(a[1]))
    if i is None:
        raise Panic('no entry found for key', ex.cur_fn.short if ex.cur_fn else '')
    return Ref(mp.items[i], 1)


@model(r'(?:std::collections::)?(HashMap|HashSet|BTreeMap|BTreeSet)::<.+?>::(\w+)(::<.*>)?')
def m_map(ex, c, a, m):
    kind, op = m.group(1), m.group(2)
    is_set = kind.endswith('Set')
    if op in ('new', 'with_capacity', 'default'):
        return SymMap()
    mp = d(a[0])
    if not isinstance(mp, SymMap):
        raise Unmodelled('map receiver %r in %s' % (mp, c))
    if op == 'len':
        return len(mp.items)
    if op == 'is_empty':
        return len(mp.items) == 0
    if op in ('iter', 'keys', 'values', 'iter_mut', 'into_iter', 'drain', 'into_keys', 'into_values'):
        items = list(mp.items)
        if kind.startswith('BTree'):
            items = _sorted_items(ex, items)
        else:
            order = ex.hooks.get('map_order')
            if order is not None:
                items = order(ex, items)
        if op == 'drain':
            mp.items = []
        if is_set or op in ('keys', 'into_keys'):
            return PyIter([(k if op.startswith('into') or op == 'drain' else Ref(e, 0)) for e in items for k in [e[0]]])
        if op in ('values', 'into_values'):
            return PyIter([(e[1] if op.startswith('into') else Ref(e, 1)) for e in items])
        if op in ('into_iter', 'drain'):
            return PyIter([Tup(e[0], e[1]) for e in items])
        return PyIter([Tup(Ref(e, 0), Ref(e, 1)) for e in items])
    if op == 'clear':
        mp.items = []
        return UNIT
    if op in ('range', 'range_mut'):
        return _btree_range(ex, mp, a[1], c)
    k = as_S(a[1])
    i = _map_find(ex, mp, k)
    if op == 'insert':
        if is_set:
            if i is None:
                mp.items.append([S(k), True])
                return True
            return False
        if i is None:
            mp.items.append([S(k), a[2]])
            return NONE()
        old = mp.items[i][1]
        mp.items[i][1] = a[2]
        return Some(old)
    if op in ('contains_key', 'contains'):
        return i is not None
    if op in ('get', 'get_mut'):
        if i is None:
            return NONE()
        return Some(Ref(mp.items[i], 0 if is_set else 1))
    if op == 'get_key_value':
        if i is None:
            return NONE()
        return Some(Tup(Ref(mp.items[i], 0), Ref(mp.items[i], 1)))
    if op == 'remove':
        if i is None:
            return False if is_set else NONE()
        e = mp.items.pop(i)
        return True if is_set else Some(e[1])
    if op == 'remove_entry':
        if i is None:
            return NONE()
        e = mp.items.pop(i)
        return Some(Tup(e[0], e[1]))
    if op == 'entry':
        # std declares hash_map::Entry as {Occupied, Vacant} but btree_map::Entry as {Vacant, Occupied}
        en = 'BTreeEntry' if kind.startswith('BTree') else 'Entry'
        if i is None:
            return Adt(en, 'Vacant', [Adt('VacantEntry', None, [mp, S(k)])])
        return Adt(en, 'Occupied', [Adt('OccupiedEntry', None, [Ref(mp.items[i], 1), mp, S(k)])])
    raise Unmodelled('call ' + c)


def _bytes_lt(ex, x, y):
    """lexicographic x < y on byte strings (String's Ord), deciding symbolic bytes by forking"""
    for i in range(min(len(x), len(y))):
        if ex.branch(beq(x[i], y[i])):
            continue
        a_, b_ = x[i], y[i]
        if type(a_) is int and type(b_) is int:
            return a_ < b_
        return ex.branch(z3.ULT(bv(a_, 8), bv(b_, 8)))
    return len(x) < len(y)


@model(r'<(str|String|&str|&String) as Ord>::cmp|<(str|String|&str|&String) as PartialOrd(<.+>)?>::(partial_cmp|lt|le|gt|ge)')
def m_str_cmp(ex, c, a, m):
    """bytewise (= code point) order of strings"""
    x, y = as_S(a[0]), as_S(a[1])
    op = 'cmp' if c.endswith('::cmp') else m.group(4)
    lt = _bytes_lt(ex, x, y)
    eq = (not lt) and len(x) == len(y) and ex.branch(seq_eq(x, y))
    if op in ('cmp', 'partial_cmp'):
        o = Adt('Ordering', 'Less' if lt else ('Equal' if eq else 'Greater'), [])
        return o if op == 'cmp' else Some(o)
    return {'lt': lt, 'le': lt or eq, 'gt': not lt and not eq, 'ge': not lt}[op]


def _sorted_items(ex, items):
    out = []
    for e in items:
        pos = len(out)
        for j, o in enumerate(out):
            if _bytes_lt(ex, e[0], o[0]):
                pos = j
                break
        out.insert(pos, e)
    return out


@model(r'core::slice::<impl \[.+\]>::binary_search_by::<.+>')
def m_binary_search_by(ex, c, a, m):
    v = d(a[0])
    less = 0
    for i in range(len(v)):
        o = d(ex.call_closure(a[1], [Ref(v, i)]))
        if o.variant == 'Equal':
            return Ok(i)
        if o.variant == 'Less':
            less += 1
    return Err(less)


@model(r'core::slice::<impl \[String\]>::(sort|sort_unstable|binary_search)|Vec::<String>::(sort|sort_unstable|dedup|binary_search)')
def m_string_vec_order(ex, c, a, m):
    """sorting / dedup / binary search of a vector of strings (bytewise order decided by the solver where bytes are symbolic)"""
    op = m.group(1) or m.group(2)
    ref = a[0]
    v = d(ref)
    items = [as_S(x) for x in v]
    if op in ('sort', 'sort_unstable'):
        out = [e[0] for e in _sorted_items(ex, [[x, None] for x in items])]
        v[:] = out
        return UNIT
    if op == 'dedup':
        out = []
        for x in items:
            if out and len(out[-1]) == len(x) and ex.branch(seq_eq(out[-1], x)):
                continue
            out.append(x)
        v[:] = out
        return UNIT
    key = as_S(a[1])
    for i, x in enumerate(items):
        if len(x) == len(key) and ex.branch(seq_eq(x, key)):
            return Ok(i)
    return Err(sum(1 for x in items if _bytes_lt(ex, x, key)))


def _btree_range(ex, mp, rng, c):
    items = _sorted_items(ex, list(mp.items))
    rng = d(rng)
    lo = hi = None
    lo_incl, hi_incl = True, False
    if type(rng) is Adt and rng.name == 'tuple':          # (Bound, Bound)
        def bound(b):
            b = d(b)
            if b.variant == 'Unbounded':
                return None, True
            return as_S(b.fields[0]), b.variant == 'Included'
        lo, lo_incl = bound(rng.fields[0])
        hi, hi_incl = bound(rng.fields[1])
    elif type(rng) is Adt:
        nm = rng.name.split('::')[-1]
        if nm == 'RangeFrom':
            lo = as_S(rng.fields[0])
        elif nm == 'Range':
            lo, hi = as_S(rng.fields[0]), as_S(rng.fields[1])
        elif nm == 'RangeTo':
            hi = as_S(rng.fields[0])
        elif nm == 'RangeInclusive':
            lo, hi, hi_incl = as_S(rng.fields[0]), as_S(rng.fields[1]), True
        elif nm == 'RangeFull':
            pass
        else:
            raise Unmodelled('range arg %r' % (rng,))
    out = []
    for e in items:
        k = e[0]
        if lo is not None:
            if _bytes_lt(ex, k, lo):
                continue
            if not lo_incl and ex.branch(seq_eq(k, lo)):
                continue
        if hi is not None:
            if _bytes_lt(ex, hi, k):
                continue
            if not hi_incl and ex.branch(seq_eq(k, hi)):
                continue
        out.append(e)
    return PyIter([Tup(Ref(e, 0), Ref(e, 1)) for e in out])


@model(r'std::collections::(?:hash_map|btree_map)::OccupiedEntry::<.+>::(get|get_mut|into_mut|insert|remove|key)')
def m_occupied(ex, c, a, m):
    e = d(a[0])
    op = m.group(1)
    if op in ('get', 'get_mut', 'into_mut'):
        return e.fields[0]
    if op == 'insert':
        old = e.fields[0].get()
        e.fields[0].set(a[1])
        return old
    if op == 'remove':
        mp, k = e.fields[1], e.fields[2]
        i = _map_find(ex, mp, k)
        return mp.items.pop(i)[1]
    raise Unmodelled('call ' + c)


@model(r'std::collections::(?:hash_map|btree_map)::VacantEntry::<.+>::(insert|key)')
def m_vacant(ex, c, a, m):
    e = d(a[0])
    if m.group(1) == 'insert':
        mp, k = e.fields[0], e.fields[1]
        mp.items.append([k, a[1]])
        return Ref(mp.items[-1], 1)
    raise Unmodelled('call ' + c)


@model(r'std::collections::(?:hash_map|btree_map)::Entry::<.+>::(or_insert|or_insert_with|or_default|and_modify)(::<.*>)?')
def m_entry(ex, c, a, m):
    e = a[0]
    op = m.group(1)
    if op in ('or_insert', 'or_insert_with', 'or_default'):
        if e.variant == 'Occupied':
            return e.fields[0].fields[0]
        if op == 'or_default':
            if 'HashSet<' in c or 'HashMap<' in c.split(',', 2)[-1] or 'BTree' in c.split(',', 2)[-1]:
                v = SymMap()
            elif re.search(r', (u|i)(size|\d+)>', c):
                v = 0
            elif 'String>' in c or 'Vec<u8>>' in c:
                v = S()
            else:
                raise Unmodelled('or_default for ' + c)
        else:
            v = a[1] if op == 'or_insert' else ex.call_closure(a[1], [])
        mp, k = e.fields[0].fields[0], e.fields[0].fields[1]
        mp.items.append([k, v])
        return Ref(mp.items[-1], 1)
    raise Unmodelled('call ' + c)


# ------------------------------------------------------------------------------------------ fmt

def display(ex, v):
    """Display of a value -> S"""
    v0 = v
    v = deref(v)
    if type(v) is S:
        return v
    if isinstance(v, ArcObj):
        return display(ex, v.cell[0])
    if type(v) is int:
        return S(str(v).encode())
    if type(v) is Adt:
        if v.name == 'Box':
            return display(ex, v.extra[0])
        f = ex.prog.by_trait_impl.get((v.name.split('::')[-1], 'Display', 'fmt'))
        if f is not None:
            fm = Adt('Formatter', None, [], extra={'out': S()})
            r = ex.run_fn(f, [Ref([v], 0), Ref([fm], 0)])
            return fm.extra['out']
        if v.name == 'IoError':
            return S(b'<io error>')
    if isinstance(v, z3.ExprRef):
        return S(b'<symbolic>')
    raise Unmodelled('Display of %r' % (v,))


@model(r"core::fmt::rt::Argument::<'_>::new_(display|debug)::<.+>")
def m_new_display(ex, c, a, m):
    return Adt('FmtArg', m.group(1), [a[0]])


def render(ex, tpl, args):
    """decode the fmt::Arguments byte template (core/src/fmt/mod.rs): len-prefixed literals,
    0xC0 placeholder (default options, next argument), 0 terminator"""
    out, i, ai = (), 0, 0
    tpl = tuple(tpl)
    while True:
        b = tpl[i]
        if b == 0:
            break
        if b == 0xC0:
            arg = args[ai]; ai += 1; i += 1
            if arg.variant == 'debug':
                out += tuple(debug_str(ex, arg.fields[0]))
            else:
                out += tuple(display(ex, arg.fields[0]))
        elif b < 0x80:
            out += tpl[i + 1:i + 1 + b]
            i += 1 + b
        else:
            raise Unmodelled('fmt template byte 0x%x (non-default format spec)' % b)
    return S(out)


def debug_str(ex, v):
    v = deref(v)
    if type(v) is S:
        return S(b'"' + (bytes(v) if v.is_concrete() else b'<sym>') + b'"')
    return S(repr(v).encode())


@model(r"Arguments::<'_>::new::<\d+, \d+>|Arguments::<'_>::new_v1::<.+>|Arguments::<'_>::new_const::<.+>")
def m_arguments_new(ex, c, a, m):
    return Adt('Arguments', None, [render(ex, as_S(a[0]), d(a[1]))])


@model(r"Arguments::<'_>::from_str(_nonconst)?")
def m_arguments_from_str(ex, c, a, m):
    return Adt('Arguments', None, [as_S(a[0])])


@model(r'format|std::fmt::format|alloc::fmt::format')
def m_format(ex, c, a, m):
    return a[0].fields[0]


@model(r'must_use::<.+>')
def m_must_use(ex, c, a, m):
    return a[0]


@model(r"Formatter::<'_>::(write_str|write_fmt)")
def m_formatter_write(ex, c, a, m):
    fm = d(a[0])
    s = as_S(a[1]) if m.group(1) == 'write_str' else a[1].fields[0]
    fm.extra['out'] = S(fm.extra['out'] + s)
    return Ok(UNIT)


@model(r"Formatter::<'_>::debug_\w+|<.+ as Debug>::fmt")
def m_formatter_debug(ex, c, a, m):
    return Ok(UNIT)


@model(r'<F as FnOnce<\(\)>>::call_once')
def m_call_once0(ex, c, a, m):
    return ex.call_closure(a[0], [])


@model(r'<(\{closure@[^}]+\}) as Fn(Once|Mut)?<\((.*)\)>>::call(_once|_mut)?')
def m_closure_call(ex, c, a, m):
    args = a[1]
    args = list(args.fields) if type(args) is Adt and args.name in ('tuple', '()') else [args]
    return ex.call_closure(a[0], args)


@model(r'<(?:[A-Z]\w*|impl Fn(?:Once|Mut)?\(.*?\)(?: -> .+?)?) as Fn(Once|Mut)?<\((.*)\)>>::call(_once|_mut)?')
def m_generic_fn_call(ex, c, a, m):
    args = a[1]
    args = list(args.fields) if type(args) is Adt and args.name in ('tuple', '()') else [args]
    return ex.call_closure(a[0], args)


# ------------------------------------------------------------------------------------------ time

@model(r'SystemTime::now|std::time::SystemTime::now')
def m_now(ex, c, a, m):
    # a fresh symbolic instant per call; compared only by equality
    ex.time_counter += 1
    # contract of the clock: some instant after 2001-09-09 (1e9 s) and far below the i64 range of SystemTime
    return Adt('SystemTime', None, [clock_reading(ex, 'now')])


@model(r'<SystemTime as PartialEq>::(eq|ne)')
def m_time_eq(ex, c, a, m):
    x, y = d(a[0]).fields[0], d(a[1]).fields[0]
    r = (x == y) if (is_sym(x) or is_sym(y)) else x == y
    return r if m.group(1) == 'eq' else znot(r)


# ------------------------------------------------------------------------------------------ io

def io_error(kind, msg=''):
    return Adt('IoError', None, [kind, lit(msg)])


@model(r'std::io::Error::kind')
def m_ioerr_kind(ex, c, a, m):
    return Adt('ErrorKind', d(a[0]).fields[0], [])


@model(r'std::io::Error::new::<.+>|std::io::Error::other::<.+>')
def m_ioerr_new(ex, c, a, m):
    if 'other' in c:
        return io_error('Other')
    return io_error(a[0].variant)


@model(r'<std::io::Error as Display>::fmt')
def m_ioerr_display(ex, c, a, m):
    fm = d(a[1])
    fm.extra['out'] = S(fm.extra['out'] + lit('<io error>'))
    return Ok(UNIT)


@model(r'std::io::Cursor::<Vec<u8>>::new')
def m_cursor_new(ex, c, a, m):
    return Cursor(as_S(a[0]))


@model(r'std::io::Cursor::<Vec<u8>>::(get_ref|get_mut|into_inner|position|set_position)')
def m_cursor_access(ex, c, a, m):
    cur = d(a[0])
    op = m.group(1)
    if op in ('get_ref', 'get_mut'):
        return Ref(cur.cell, 'data')
    if op == 'into_inner':
        return cur.cell['data']
    if op == 'position':
        return cur.cell['pos']
    cur.cell['pos'] = a[1]
    return UNIT


MAX_GAP = 8      # bound: a write may zero-fill at most this many bytes beyond the current end


@model(r'<std::io::Cursor<Vec<u8>> as std::io::Write>::(write|write_all|flush)')
def m_cursor_write(ex, c, a, m):
    cur = d(a[0])
    if m.group(1) == 'flush':
        return Ok(UNIT)
    buf = as_S(a[1])
    data, pos = cur.cell['data'], cur.cell['pos']
    p = ex.concretize(pos, len(data) + MAX_GAP)
    if p is None:
        # std: position beyond usize / allocation failure; outside the bound of the byte model
        raise Bound('cursor write at position more than %d bytes beyond the end' % MAX_GAP)
    # std's Vec-backed cursor pads with zeros up to the position even for an empty write
    if p > len(data):
        data = S(data + (0,) * (p - len(data)))
    data = S(data[:p] + tuple(buf) + data[p + len(buf):])
    cur.cell['data'] = data
    cur.cell['pos'] = p + len(buf)
    return Ok(len(buf)) if m.group(1) == 'write' else Ok(UNIT)


def seek_model(ex, base_len, pos, sf):
    """std::io::Cursor seek contract: returns ('ok', newpos) or ('err',)"""
    off = sf.fields[0]
    if sf.variant == 'Start':
        return ('ok', off)
    base = base_len if sf.variant == 'End' else pos
    # checked_add_signed(base as u64, off as i64)
    if type(base) is int and type(off) is int:
        r = base + off
        if r < 0 or r >= (1 << 64):
            return ('err',)
        return ('ok', r)
    B, O = bv(base, 64), bv(off, 64)
    neg = O < 0
    # off >= 0: overflow iff base + off wraps ; off < 0: underflow iff base < -off
    bad = z3.If(neg, z3.ULT(B, -O), z3.Not(z3.BVAddNoOverflow(B, O, False)))
    if ex.branch(bad):
        return ('err',)
    return ('ok', z3.simplify(B + O))


@model(r'<std::io::Cursor<Vec<u8>> as (std::io::)?Seek>::(seek|stream_position|rewind)')
def m_cursor_seek(ex, c, a, m):
    cur = d(a[0])
    if m.group(2) == 'stream_position':
        return Ok(cur.cell['pos'])
    if m.group(2) == 'rewind':
        cur.cell['pos'] = 0
        return Ok(UNIT)
    r = seek_model(ex, len(cur.cell['data']), cur.cell['pos'], a[1])
    if r[0] == 'err':
        return Err(io_error('InvalidInput', 'invalid seek to a negative or overflowing position'))
    cur.cell['pos'] = r[1]
    return Ok(r[1])


def _dyn_call(ex, recv, trait, meth, args):
    """call a trait method on a (boxed) dyn object by its runtime type"""
    r = recv
    v = deref(r)
    while type(v) is Adt and v.name == 'Box':
        r = Ref(v.extra, 0)
        v = v.extra[0]
    if not isinstance(r, Ref):
        r = Ref([v], 0)
    if type(v).__name__ == 'OsHandle':
        return call_model(ex, '<File as %s>::%s' % (trait.split('::')[-1], meth), [r] + args)
    if isinstance(v, Cursor):
        if meth == 'read':
            return call_model(ex, '<std::io::Cursor<Cow<[u8]>> as Read>::read', [r] + args)
        return call_model(ex, '<std::io::Cursor<Vec<u8>> as %s>::%s' % (trait, meth), [r] + args)
    if type(v) is Adt:
        f = ex.prog.by_trait_impl.get((v.name.split('::')[-1], trait.split('::')[-1], meth))
        if f is not None:
            return ex.run_fn(f, [r] + args)
        nat = ex.hooks.get('native_dyn')
        if nat is not None:
            return nat(ex, v, trait, meth, [r] + args)
    raise Unmodelled('dyn %s::%s on %r' % (trait, meth, v))


def _crate_override(ex, recv, trait, meth):
    """the crate's own implementation of a *provided* trait method (read_to_end, write_all, ...) for the runtime type
    of the receiver, if it has one: the generic contract model of the provided method must not hide it"""
    v = deref(recv)
    while type(v) is Adt and v.name == 'Box':
        v = v.extra[0]
    if type(v) is Adt:
        return ex.prog.by_trait_impl.get((v.name.split('::')[-1], trait, meth))
    return None


COPY_BUF = 2     # model buffer capacity of io::copy / read_to_end (the real 8 KiB constant is std-internal)


@model(r'<&\[u8\] as (std::io::)?Read>::read')
def m_slice_read(ex, c, a, m):
    """Read for &[u8]: copies min(len) bytes and advances the slice"""
    recv = a[0]
    v = recv.get() if isinstance(recv, Ref) else recv
    data = as_S(v)
    buf = as_S(a[1])
    n = min(len(buf), len(data))
    a[1].set(S(tuple(data[:n]) + tuple(buf[n:])))
    if isinstance(v, SliceRef):
        nv = SliceRef(v.parent, v.a + n, v.b)
    else:
        nv = ValRef(S(data[n:]))
    if isinstance(recv, Ref):
        recv.set(nv)
    return Ok(n)


@model(r'std::io::copy::<.+>')
def m_io_copy(ex, c, a, m):
    """loop over the *real* reader's read and the real writer's write with a small buffer"""
    cap = ex.hooks.get('copy_buf', COPY_BUF)
    total = 0
    for _ in range(64):
        buf = [S((0,) * cap)]
        r = _dyn_call(ex, a[0], 'std::io::Read', 'read', [Ref(buf, 0)])
        if r.variant == 'Err':
            return r
        n = ex.concretize(r.fields[0], cap)
        if n is None:
            raise Panic('reader returned more than the buffer size', 'std::io::copy')
        if n == 0:
            return Ok(total)
        chunk = S(buf[0][:n])
        # write_all
        while len(chunk):
            w = _dyn_call(ex, a[1], 'std::io::Write', 'write', [ValRef(chunk)])
            if w.variant == 'Err':
                return w
            k = ex.concretize(w.fields[0], len(chunk))
            if k is None:
                raise Panic('writer returned more than the slice length', 'std::io::copy')
            if k == 0:
                return Err(io_error('WriteZero', 'failed to write whole buffer'))
            chunk = S(chunk[k:])
        total += n
    raise Bound('io::copy longer than 64 chunks')


@model(r'<Box<dyn .+> as std::io::Read>::(read_to_string|read_to_end|read|read_exact)|<.+ as std::io::Read>::(read_to_string|read_to_end)')
def m_read_to(ex, c, a, m):
    op = m.group(1) or m.group(2)
    if op == 'read' or _crate_override(ex, a[0], 'Read', op) is not None:
        return _dyn_call(ex, a[0], 'std::io::Read', op, a[1:])
    cap = ex.hooks.get('copy_buf', COPY_BUF)
    got = ()
    for _ in range(64):
        buf = [S((0,) * cap)]
        r = _dyn_call(ex, a[0], 'std::io::Read', 'read', [Ref(buf, 0)])
        if r.variant == 'Err':
            return r
        n = ex.concretize(r.fields[0], cap)
        if n is None:
            raise Panic('reader returned more than the buffer size', 'read_to_end')
        if n == 0:
            break
        got += tuple(buf[0][:n])
    else:
        raise Bound('read_to_end longer than 64 chunks')
    if op == 'read_to_string':
        if not ex.branch(utf8_valid(ex, got)):
            return Err(io_error('InvalidData', 'stream did not contain valid UTF-8'))
    a[1].set(S(as_S(a[1]) + got))
    return Ok(len(got))


@model(r'<Box<dyn .+> as std::io::Write>::(write|write_all|flush)|<Box<dyn .+> as (?:std::io::)?Seek>::(seek)')
def m_box_write(ex, c, a, m):
    if m.group(2):
        return _dyn_call(ex, a[0], 'Seek', 'seek', [a[1]])
    op = m.group(1)
    if op == 'write_all' and _crate_override(ex, a[0], 'Write', op) is None:
        chunk = as_S(a[1])
        while len(chunk):
            w = _dyn_call(ex, a[0], 'std::io::Write', 'write', [ValRef(chunk)])
            if w.variant == 'Err':
                return w
            k = ex.concretize(w.fields[0], len(chunk))
            if k == 0:
                return Err(io_error('WriteZero'))
            chunk = S(chunk[k:])
        return Ok(UNIT)
    return _dyn_call(ex, a[0], 'std::io::Write', op, a[1:])


# ------------------------------------------------------------------------------------------ misc

@model(r'<(u64|usize|u32|i64|u8) as (From|Into|TryFrom|TryInto)<(u64|usize|u32|i64|u8)>>::\w+')
def m_int_conv(ex, c, a, m):
    if 'Try' in m.group(2):
        raise Unmodelled('call ' + c)
    return a[0]


@model(r'core::num::<impl (u64|usize|i64|u32)>::(checked_add|checked_sub|saturating_sub|saturating_add|wrapping_add|wrapping_sub|checked_add_signed|min|max|try_into)')
def m_num(ex, c, a, m):
    ty, op = m.group(1), m.group(2)
    x, y = a[0], a[1]
    w, signed = (64, ty.startswith('i')) if ty != 'u32' else (32, False)
    if op in ('checked_add', 'checked_sub'):
        t = ex.binop(ex.cur_fn, 'AddWithOverflow' if op == 'checked_add' else 'SubWithOverflow', x, y, ty)
        if ex.branch(t.fields[1]):
            return NONE()
        return Some(t.fields[0])
    if op in ('saturating_sub', 'saturating_add'):
        t = ex.binop(ex.cur_fn, 'AddWithOverflow' if op == 'saturating_add' else 'SubWithOverflow', x, y, ty)
        if ex.branch(t.fields[1]):
            return (0 if op == 'saturating_sub' else (1 << w) - 1)
        return t.fields[0]
    if op in ('wrapping_add', 'wrapping_sub'):
        t = ex.binop(ex.cur_fn, 'AddWithOverflow' if op == 'wrapping_add' else 'SubWithOverflow', x, y, ty)
        return t.fields[0]
    if op == 'checked_add_signed':
        r = seek_model(ex, x, x, Adt('SeekFrom', 'Current', [y]))
        return Some(r[1]) if r[0] == 'ok' else NONE()
    if op in ('min', 'max'):
        return m_minmax(ex, 'std::cmp::%s::<u64>' % op, a, None)
    raise Unmodelled('call ' + c)


@model(r'(std::rt::)?begin_panic::<.+>|core::panicking::panic(_fmt|_display::<.+>|_explicit)?|panic_fmt|std::rt::panic_fmt|core::panicking::panic_const::.+|unreachable_display::<.+>|core::panicking::unreachable_display::<.+>|panic_display::<.+>')
def m_panic(ex, c, a, m):
    msg = ''
    try:
        v = a[0] if a else None
        if type(v) is Adt and v.name == 'Arguments':
            v = v.fields[0]
        if v is not None:
            msg = as_S(v).text() if as_S(v).is_concrete() else '<symbolic message>'
    except Exception:
        pass
    ex.stats.panics += 1
    raise Panic('explicit panic: ' + msg, ex.cur_fn.short if ex.cur_fn else '')


@model(r'core::hint::unreachable_unchecked|std::hint::unreachable_unchecked')
def m_unreachable(ex, c, a, m):
    raise Unmodelled('unreachable_unchecked reached')


@model(r'<\(\) as Default>::default')
def m_unit_default(ex, c, a, m):
    return UNIT


@model(r'<(u64|usize|u8|i64|bool|char) as PartialEq>::(eq|ne)')
def m_int_eq(ex, c, a, m):
    r = ex.binop(ex.cur_fn, 'Eq', d(a[0]), d(a[1]), m.group(1))
    return r if m.group(2) == 'eq' else znot(r)


@model(r'<(std::io::)?ErrorKind as PartialEq>::eq|<(\w+::)*VfsFileType as PartialEq>::eq')
def m_unit_enum_eq(ex, c, a, m):
    return d(a[0]).variant == d(a[1]).variant


@model(r'<Vec<.+> as DerefMut>::deref_mut|<Vec<.+> as AsMut<.+>>::as_mut|Vec::<.+>::as_mut_slice')
def m_vec_deref_mut(ex, c, a, m):
    return a[0]


@model(r'<Option<(u64|usize|u8|i64|u32|bool|char|(?:\w+::)*VfsFileType)> as PartialEq>::eq')
def m_opt_int_eq(ex, c, a, m):
    x, y = d(a[0]), d(a[1])
    if x.variant != y.variant:
        return False
    if x.variant == 'None':
        return True
    px, py = d(x.fields[0]), d(y.fields[0])
    if type(px) is Adt and type(py) is Adt:
        return px.variant == py.variant          # field-less enum
    return ex.binop(ex.cur_fn, 'Eq', px, py, m.group(1))


@model(r'<(.+) as PartialEq(<.+>)?>::ne')
def m_generic_ne(ex, c, a, m):
    return znot(ex.call(c[:-2] + 'eq', a))


@model(r'core::num::<impl (i64|i32|isize)>::(unsigned_abs|abs|wrapping_abs)')
def m_unsigned_abs(ex, c, a, m):
    x = a[0]
    w = 32 if m.group(1) == 'i32' else 64
    if type(x) is int:
        if m.group(2) == 'abs' and x == -(1 << (w - 1)) and not ex.release:
            raise Panic('attempt to negate with overflow', ex.cur_fn.short if ex.cur_fn else '')
        return abs(x) & ((1 << w) - 1)
    # fork instead of an ite: keeps the terms the solver sees linear
    if ex.branch(x < 0):
        return z3.simplify(-x)
    return x


@model(r'<SystemTime as PartialOrd>::(lt|le|gt|ge|partial_cmp)|<SystemTime as Ord>::(cmp|max|min)')
def m_time_cmp(ex, c, a, m):
    x, y = d(a[0]).fields[0], d(a[1]).fields[0]
    X, Y = bv(x, 64), bv(y, 64)
    op = m.group(1) or m.group(2)
    if op == 'lt':
        return z3.ULT(X, Y) if (is_sym(x) or is_sym(y)) else x < y
    if op == 'le':
        return z3.ULE(X, Y) if (is_sym(x) or is_sym(y)) else x <= y
    if op == 'gt':
        return z3.UGT(X, Y) if (is_sym(x) or is_sym(y)) else x > y
    if op == 'ge':
        return z3.UGE(X, Y) if (is_sym(x) or is_sym(y)) else x >= y
    lt = ex.branch(z3.ULT(X, Y)) if (is_sym(x) or is_sym(y)) else x < y
    if op in ('max', 'min'):
        return (d(a[1]) if lt else d(a[0])) if op == 'max' else (d(a[0]) if lt else d(a[1]))
    if lt:
        o = Adt('Ordering', 'Less', [])
    elif (ex.branch(X == Y) if (is_sym(x) or is_sym(y)) else x == y):
        o = Adt('Ordering', 'Equal', [])
    else:
        o = Adt('Ordering', 'Greater', [])
    return Some(o) if op == 'partial_cmp' else o


@model(r'<Option<SystemTime> as PartialOrd>::(lt|le|gt|ge)|<Option<SystemTime> as Ord>::(max|min)')
def m_opt_time_cmp(ex, c, a, m):
    """derived ordering of Option: None < Some(_), Some compared by payload"""
    x, y = d(a[0]), d(a[1])
    op = m.group(1) or m.group(2)
    if x.variant == 'Some' and y.variant == 'Some':
        if op in ('max', 'min'):
            r = m_time_cmp(ex, '<SystemTime as Ord>::' + op, [x.fields[0], y.fields[0]], re.fullmatch(r'<SystemTime as PartialOrd>::(lt|le|gt|ge|partial_cmp)|<SystemTime as Ord>::(cmp|max|min)', '<SystemTime as Ord>::' + op))
            return Some(r)
        return m_time_cmp(ex, c, [x.fields[0], y.fields[0]], re.fullmatch(r'<SystemTime as PartialOrd>::(lt|le|gt|ge|partial_cmp)|<SystemTime as Ord>::(cmp|max|min)', '<SystemTime as PartialOrd>::' + op))
    rank = lambda o: 1 if o.variant == 'Some' else 0
    if op in ('max', 'min'):
        big, small = (x, y) if rank(x) > rank(y) else (y, x)
        return big if op == 'max' else small
    return {'lt': rank(x) < rank(y), 'le': rank(x) <= rank(y), 'gt': rank(x) > rank(y), 'ge': rank(x) >= rank(y)}[op]


# ------------------------------------------------------------------------------------------ rust-embed (C18)

def cow(v):
    return Adt('Cow', 'Borrowed', [v])


@model(r'<T as RustEmbed>::iter')
def m_embed_iter(ex, c, a, m):
    files = ex.hooks.get('embed_files')
    if files is None:
        raise Unmodelled('RustEmbed model without a file set')
    return PyIter([cow(S(k)) for k in sorted(files)])


@model(r'<T as RustEmbed>::get')
def m_embed_get(ex, c, a, m):
    files = ex.hooks.get('embed_files')
    k = as_S(a[0])
    for path, data in sorted(files.items()):
        if ex.branch(seq_eq(S(path), k)):
            meta = Adt('Metadata', None, [NONE(), NONE()])
            return Some(Adt('EmbeddedFile', None, [cow(S(data)), meta]))
    return NONE()


@model(r'rust_embed::Metadata::(last_modified|created)')
def m_embed_meta(ex, c, a, m):
    return NONE()


@model(r"<Cow<'?\w*,? ?(str|\[u8\])> as (Clone|Deref|AsRef<.+>|Borrow<.+>)>::\w+|Cow::<'?\w*,? ?(str|\[u8\])>::(into_owned|as_ref|to_mut)|<&?Cow<.+> as (Into|From)<.+>>::\w+")
def m_cow(ex, c, a, m):
    v = d(a[0])
    if c.endswith('::clone'):
        return Adt('Cow', v.variant, [as_S(v)]) if type(v) is Adt else cow(as_S(v))
    return as_S(v)


@model(r"<(&str|String|&String) as Into<Cow<.+>>>::into|<Cow<.+> as From<(&str|String|&String)>>::from")
def m_cow_from(ex, c, a, m):
    return cow(as_S(a[0]))


@model(r"<Cow<.+> as PartialEq(<.+>)?>::(eq|ne)")
def m_cow_eq(ex, c, a, m):
    r = seq_eq(as_S(a[0]), as_S(a[1]))
    return r if c.endswith('eq') else znot(r)


@model(r"<HashMap<.+> as Default>::default|<HashSet<.+> as Default>::default|<HashSet<.+> as Clone>::clone|<HashMap<.+> as Clone>::clone")
def m_map_default(ex, c, a, m):
    if c.endswith('clone'):
        src = d(a[0])
        mp = SymMap()
        mp.items = [[k, v] for k, v in src.items]
        return mp
    return SymMap()


@model(r"std::io::Cursor::<Cow<'?\w*,? ?\[u8\]>>::new")
def m_cursor_cow(ex, c, a, m):
    return Cursor(as_S(a[0]))


@model(r"<std::io::Cursor<Cow<.+>> as (std::io::)?(Read|Seek)>::(read|seek)")
def m_cursor_cow_rs(ex, c, a, m):
    cur = d(a[0])
    if m.group(3) == 'seek':
        return call_model(ex, '<std::io::Cursor<Vec<u8>> as Seek>::seek', a)
    data, pos = cur.cell['data'], cur.cell['pos']
    buf = a[1]
    n = len(buf.get())
    p = ex.concretize(pos, len(data))
    if p is None:
        return Ok(0)
    k = min(n, len(data) - p)
    cur_buf = buf.get()
    buf.set(S(tuple(data[p:p + k]) + tuple(cur_buf[k:])))
    cur.cell['pos'] = p + k
    return Ok(k)


@model(r"<SystemTime as Add<Duration>>::add|Duration::from_secs")
def m_time_add(ex, c, a, m):
    if c.startswith('Duration'):
        return Adt('Duration', None, [a[0]])
    return Adt('SystemTime', None, [d(a[1]).fields[0]])


# ------------------------------------------------------------------------------------------ Pin / task (async kernels)

@model(r"Pin::<&mut .+>::(get_mut|into_inner|get_unchecked_mut|into_ref|get_ref)|Pin::<.+>::(as_mut|as_ref)|<Pin<.+> as Deref(Mut)?>::deref(_mut)?")
def m_pin_get(ex, c, a, m):
    p = d(a[0]) if isinstance(a[0], Ref) and type(d(a[0])) is Adt and d(a[0]).name == 'Pin' else a[0]
    if type(p) is Adt and p.name == 'Pin':
        inner = p.fields[0]
        if c.startswith('Pin::<') and (m.group(2) in ('as_mut', 'as_ref')):
            return Adt('Pin', None, [inner if isinstance(inner, Ref) else Ref(p.fields, 0)])
        return inner
    return a[0]


@model(r"Pin::<.+>::(new|new_unchecked)")
def m_pin_new(ex, c, a, m):
    return Adt('Pin', None, [a[0]])


from . import osm   # noqa: E402  (registers the OS contract model)
from . import asyncrt   # noqa: E402  (async run time models)


@model(r'core::str::<impl str>::replace::<.+>|std::str::<impl str>::replace::<.+>|alloc::str::<impl str>::replace::<.+>')
def m_str_replace(ex, c, a, m):
    s, pat, rep = as_S(a[0]), _pat(a[1]), tuple(as_S(a[2]))
    if not pat:
        raise Unmodelled('replace with an empty pattern')
    out, i, n, k = [], 0, len(s), len(pat)
    while i < n:
        if i + k <= n and ex.branch(_match_at(s, i, pat)):
            out += rep
            i += k
        else:
            out.append(s[i])
            i += 1
    return S(out)


@model(r'std::io::_print|std::io::_eprint')
def m_print(ex, c, a, m):
    return UNIT


@model(r'Arc::<.+>::(try_unwrap|into_inner|unwrap_or_clone)')
def m_arc_try_unwrap(ex, c, a, m):
    # reference counts are not tracked: the Arc is assumed to be unique (stated in the evidence when used)
    arc = d(a[0])
    v = arc.cell[0]
    if m.group(1) == 'try_unwrap':
        return Ok(v)
    if m.group(1) == 'into_inner':
        return Some(v)
    return v


@model(r'<.+ as Extend<.+>>::extend::<.+>|HashSet::<.+>::extend::<.+>|Vec::<.+>::extend::<.+>')
def m_extend(ex, c, a, m):
    tgt = d(a[0])
    items = drain(ex, a[1])
    if isinstance(tgt, SymMap):
        for x in items:
            if type(x) is Adt and x.name == 'tuple':
                _map_insert(ex, tgt, as_S(x.fields[0]), x.fields[1])
            else:
                _map_insert(ex, tgt, as_S(x), True)
        return UNIT
    if type(tgt) is list:
        tgt.extend(items)
        return UNIT
    raise Unmodelled('extend on %r' % (tgt,))
