"""Value representation of the MIR symbolic executor."""
import z3


class Panic(Exception):
    """the executed code panics on this path"""
    def __init__(self, msg, where=''):
        Exception.__init__(self, msg)
        self.msg, self.where = msg, where


class Unmodelled(Exception):
    """a callee / construct has no model: the run is inconclusive, never a pass or a violation"""


class Bound(Exception):
    """an engine bound (loop iterations, statements per path) was hit on a feasible path"""


class Deadlock(Exception):
    """a lock is requested that can never be granted"""


class Infeasible(Exception):
    """harness-level assumption is unsatisfiable on this path (path is dropped, counted)"""


class S(tuple):
    """immutable byte string (str, String, Vec<u8>, [u8], Arc<str>): concrete length, each byte an int or BV8"""
    __slots__ = ()

    def __repr__(self):
        if all(type(b) is int for b in self):
            return 'S' + repr(bytes(self))
        return 'S[' + ','.join(str(b) for b in self) + ']'

    def is_concrete(self):
        return all(type(b) is int for b in self)

    def text(self):
        return bytes(self).decode('utf-8', 'replace')


def lit(bs):
    if isinstance(bs, str):
        bs = bs.encode()
    return S(bs)


class Adt:
    """struct / tuple / enum variant / closure environment"""
    __slots__ = ('name', 'variant', 'fields', 'extra')

    def __init__(self, name, variant, fields, extra=None):
        self.name, self.variant, self.fields, self.extra = name, variant, fields, extra

    def __repr__(self):
        if self.variant:
            return '%s::%s%r' % (self.name, self.variant, self.fields) if self.fields else '%s::%s' % (self.name, self.variant)
        return '%s%r' % (self.name, self.fields)


UNIT = Adt('()', None, [])


def Some(v):
    return Adt('Option', 'Some', [v])


def NONE():
    return Adt('Option', 'None', [])


def Ok(v):
    return Adt('Result', 'Ok', [v])


def Err(e):
    return Adt('Result', 'Err', [e])


def Tup(*xs):
    return Adt('tuple', None, list(xs))


class Ref:
    """a location: container (dict frame or list) + key + field/index projection"""
    __slots__ = ('cont', 'key', 'proj')

    def __init__(self, cont, key, proj=()):
        self.cont, self.key, self.proj = cont, key, proj

    def get(self):
        v = self.cont[self.key]
        for p in self.proj:
            v = v.fields[p] if type(v) is Adt else v[p]
        return v

    def set(self, nv):
        proj = self.proj
        if not proj:
            self.cont[self.key] = nv
            return
        v = self.cont[self.key]
        for p in proj[:-1]:
            v = v.fields[p] if type(v) is Adt else v[p]
        last = proj[-1]
        if type(v) is Adt:
            v.fields[last] = nv
        elif type(v) is S:
            # immutable bytes: rebuild and store through the parent location
            Ref(self.cont, self.key, proj[:-1]).set(S(v[:last] + (nv,) + v[last + 1:]))
        else:
            v[last] = nv

    def field(self, p):
        return Ref(self.cont, self.key, self.proj + (p,))

    def __repr__(self):
        try:
            return '&%r' % (self.get(),)
        except Exception:
            return '&<dangling>'


class SliceRef(Ref):
    """&[T] / &mut [T] view  parent[a:b]"""
    __slots__ = ('parent', 'a', 'b')

    def __init__(self, parent, a, b):
        self.parent, self.a, self.b = parent, a, b
        self.cont, self.key, self.proj = None, None, ()

    def get(self):
        return S(self.parent.get()[self.a:self.b])

    def set(self, nv):
        cur = self.parent.get()
        self.parent.set(S(tuple(cur[:self.a]) + tuple(nv) + tuple(cur[self.b:])))

    def field(self, p):
        return ElemRef(self, p)


class ElemRef(Ref):
    __slots__ = ('sl', 'i')

    def __init__(self, sl, i):
        self.sl, self.i = sl, i
        self.cont, self.key, self.proj = None, None, ()

    def get(self):
        return self.sl.get()[self.i]

    def set(self, nv):
        cur = self.sl.get()
        self.sl.set(S(cur[:self.i] + (nv,) + cur[self.i + 1:]))


class ValRef(Ref):
    """reference to a temporary value (e.g. &str produced by a model)"""
    __slots__ = ()

    def __init__(self, v):
        self.cont, self.key, self.proj = [v], 0, ()


def deref(v):
    while isinstance(v, Ref):
        v = v.get()
    return v


# ------------------------------------------------------------------ heap objects (all are Adt for uniform projection)

def new_box(v):
    cell = [v]
    b = Adt('Box', None, [Adt('Unique', None, [Ref(cell, 0), UNIT]), UNIT], extra=cell)
    return b


def box_inner(b):
    return b.extra[0]


class ArcObj:
    """Arc<T> / RwLock<T> share one identity object"""
    __slots__ = ('cell', 'readers', 'writer', 'tag', 'rowners')

    def __init__(self, v, tag=''):
        self.cell, self.readers, self.writer, self.tag = [v], 0, None, tag
        self.rowners = []

    def __repr__(self):
        return 'Arc#%x(%r)' % (id(self) & 0xffff, self.cell[0])


class Guard:
    __slots__ = ('lock', 'mode', 'released', 'owner')

    def __init__(self, lock, mode, owner):
        self.lock, self.mode, self.released, self.owner = lock, mode, False, owner

    def __repr__(self):
        return 'Guard(%s)' % self.mode


class PyIter:
    """iterator over a concrete list of already computed items"""
    __slots__ = ('items', 'pos')

    def __init__(self, items):
        self.items, self.pos = list(items), 0


class LazyIter:
    """adaptor: kind in map / filter_map / filter; inner iterator value; closure value"""
    __slots__ = ('kind', 'inner', 'clo', 'state')

    def __init__(self, kind, inner, clo):
        self.kind, self.inner, self.clo = kind, inner, clo
        self.state = None


class Cursor:
    """std::io::Cursor<Vec<u8>>: data is an S, pos a u64 (int or BV64)"""
    __slots__ = ('cell',)

    def __init__(self, data):
        self.cell = {'data': S(data), 'pos': 0}


class SymMap:
    """HashMap<String, V> / HashSet<String> as an association list with the map contract"""
    __slots__ = ('items',)

    def __init__(self):
        self.items = []          # list of [key S, value]


# ------------------------------------------------------------------ symbolic helpers

def is_sym(x):
    return isinstance(x, z3.ExprRef)


def bv(x, w):
    return z3.BitVecVal(x, w) if type(x) is int else x


def beq(a, b):
    """byte equality: bool or z3 Bool"""
    if type(a) is int and type(b) is int:
        return a == b
    return bv(a, 8) == bv(b, 8)


def zand(cs):
    out = []
    for c in cs:
        if c is False:
            return False
        if c is True:
            continue
        out.append(c)
    if not out:
        return True
    return out[0] if len(out) == 1 else z3.And(out)


def zor(cs):
    out = []
    for c in cs:
        if c is True:
            return True
        if c is False:
            continue
        out.append(c)
    if not out:
        return False
    return out[0] if len(out) == 1 else z3.Or(out)


def znot(c):
    if c is True:
        return False
    if c is False:
        return True
    return z3.Not(c)


def seq_eq(a, b):
    if len(a) != len(b):
        return False
    return zand([beq(x, y) for x, y in zip(a, b)])


def copyval(v):
    """semantic `copy` of an inline value (heap handles and references are shared)"""
    if type(v) is Adt and v.extra is None and v.fields:
        return Adt(v.name, v.variant, [copyval(f) for f in v.fields])
    return v


def clock_reading(ex, tag='t'):
    """an instant read from the clock (SystemTime::now, a kernel time stamp): 1e9 s + a fresh 40-bit offset, so that it is
    >= 1e9 s by construction (no assumption, no solver call) and far below the i64 range of SystemTime"""
    return z3.BitVecVal(1000000000, 64) + z3.ZeroExt(24, ex.fresh('now_' + tag, 40))


def is_clock_reading(x):
    return is_sym(x) and 'now_' in str(x)
