"""Async run time for the engine: lowered coroutines (async fn bodies / async blocks) are ordinary
state machines in the MIR; this module polls them, models the external futures of async-std /
futures (lock acquisition, cursor I/O, streams, io::copy, read_to_string) and provides a trivial
executor.  External futures return Pending a harness-chosen number of times before Ready, so
"independent of how often futures return pending" is an explored choice."""
import re

from .values import *   # noqa
from .models import model, as_S, d, call_model, io_error, _acquire, release_guard, _dyn_call, drain, iter_next
from . import models

MAX_POLLS = 200


def find_poll_fn(ex, co):
    prog = ex.prog
    cache = prog.__dict__.setdefault('_pollfns', {})
    key = (co.name, id(co.extra.get('parent')))
    if key in cache:
        return cache[key]
    m = re.match(r'\{coroutine@(.+?)(?: \(#\d+\))?\}$', co.name)
    span = m.group(1) if m else None
    f = None
    for k, fn in prog.closures.items():
        if span and span in k:
            f = fn
            break
    if f is None:
        parent = co.extra.get('parent')
        if parent is not None:
            for cand in prog.fns.get(parent.name + '::{closure#0}', []):
                f = cand
    if f is None:
        raise Unmodelled('poll function of coroutine ' + co.name)
    cache[key] = f
    return f


def unwrap_future(v):
    """-> (kind, object, ref): peel Pin / Box / references down to the future object"""
    r = None
    for _ in range(12):
        if isinstance(v, Ref):
            r = v
            v = v.get()
            continue
        if type(v) is Adt and v.name == 'Pin':
            v = v.fields[0]
            continue
        if type(v) is Adt and v.name == 'Box':
            r = Ref(v.extra, 0)
            v = v.extra[0]
            continue
        break
    return v, r


def pending_first(ex, what):
    """harness policy: how often does this external future return Pending before Ready?"""
    pol = ex.hooks.get('pending')
    return pol(ex, what) if pol is not None else 0


def poll(ex, fut, cx):
    obj, ref = unwrap_future(fut)
    if type(obj) is Adt and isinstance(obj.extra, dict) and 'vars' in obj.extra:
        f = find_poll_fn(ex, obj)
        if ref is None:
            ref = Ref([obj], 0)
        return ex.run_fn(f, [Adt('Pin', None, [ref]), cx])
    if isinstance(obj, ExtFuture):
        return obj.poll(ex)
    raise Unmodelled('poll of %r' % (obj,))


def block_on(ex, fut):
    cx = Ref([Adt('Context', None, [])], 0)
    for _ in range(MAX_POLLS):
        r = poll(ex, fut, cx)
        if r.variant == 'Ready':
            return r.fields[0]
    raise Bound('future still pending after %d polls' % MAX_POLLS)


class ExtFuture:
    """an external (library) future: `thunk` computes the ready value; may be Pending first"""

    def __init__(self, ex, what, thunk):
        self.what, self.thunk = what, thunk
        self.remaining = None
        self.done = False
        self.value = None

    def poll(self, ex):
        if self.remaining is None:
            self.remaining = pending_first(ex, self.what)
        if self.remaining > 0:
            self.remaining -= 1
            return Adt('Poll', 'Pending', [])
        if not self.done:
            self.value = self.thunk()
            self.done = True
        return Adt('Poll', 'Ready', [self.value])


def Ready(v):
    return Adt('Poll', 'Ready', [v])


# ------------------------------------------------------------------------------------------ polling

@model(r'<.+ as (futures::|std::future::|core::future::)?Future>::poll|<.+ as (futures::)?FutureExt>::poll_unpin')
def m_future_poll(ex, c, a, m):
    return poll(ex, a[0], a[1])


@model(r'<.+ as (std::future::|core::future::)?IntoFuture>::into_future')
def m_into_future(ex, c, a, m):
    return a[0]


@model(r'(futures::executor::|async_std::task::|tokio::runtime::Runtime::)?block_on::<.+>|futures::executor::block_on::<.+>')
def m_block_on(ex, c, a, m):
    return block_on(ex, a[-1])


# ------------------------------------------------------------------------------------------ async-std RwLock

@model(r'async_std::sync::RwLock::<.+>::(read|write)|async_lock::RwLock::<.+>::(read|write)')
def m_async_lock(ex, c, a, m):
    lock = d(a[0])
    mode = 'w' if (m.group(1) or m.group(2)) == 'write' else 'r'
    return ExtFuture(ex, 'lock', lambda: _acquire(ex, lock, mode))


# ------------------------------------------------------------------------------------------ cursor / handle I/O

@model(r'async_std::io::Cursor::<Vec<u8>>::new|futures::io::Cursor::<Vec<u8>>::new')
def m_acursor_new(ex, c, a, m):
    return Cursor(as_S(a[0]))


@model(r'async_std::io::Cursor::<Vec<u8>>::(get_ref|get_mut|into_inner)|futures::io::Cursor::<Vec<u8>>::(get_ref|get_mut|into_inner)')
def m_acursor_access(ex, c, a, m):
    return call_model(ex, 'std::io::Cursor::<Vec<u8>>::' + (m.group(1) or m.group(2)), a)


@model(r'<async_std::io::Cursor<Vec<u8>> as (futures::)?AsyncWrite>::poll_(write|flush|close)')
def m_acursor_write(ex, c, a, m):
    cur, _ = unwrap_future(a[0])
    op = m.group(2)
    if op == 'write':
        return Ready(call_model(ex, '<std::io::Cursor<Vec<u8>> as std::io::Write>::write', [Ref([cur], 0), a[2]]))
    return Ready(Ok(UNIT))


@model(r'<async_std::io::Cursor<Vec<u8>> as SeekExt>::seek')
def m_acursor_seek(ex, c, a, m):
    cur = d(a[0])
    sf = a[1]
    return ExtFuture(ex, 'seek', lambda: call_model(ex, '<std::io::Cursor<Vec<u8>> as Seek>::seek', [Ref([cur], 0), sf]))


def dyn_poll(ex, handle, trait, meth, args):
    """poll_* of a boxed async handle by runtime type (crate types run their MIR)"""
    obj, ref = unwrap_future(handle)
    if isinstance(obj, Cursor):
        if meth == 'poll_read':
            return Ready(call_model(ex, '<std::io::Cursor<Cow<[u8]>> as Read>::read', [Ref([obj], 0), args[0]]))
        if meth == 'poll_write':
            return Ready(call_model(ex, '<std::io::Cursor<Vec<u8>> as std::io::Write>::write', [Ref([obj], 0), args[0]]))
        if meth == 'poll_seek':
            return Ready(call_model(ex, '<std::io::Cursor<Vec<u8>> as Seek>::seek', [Ref([obj], 0), args[0]]))
        return Ready(Ok(UNIT))
    if type(obj) is Adt:
        f = None
        for tr in (trait, 'Read', 'Write', 'Seek', 'AsyncRead', 'AsyncWrite', 'AsyncSeek'):
            f = ex.prog.by_trait_impl.get((obj.name.split('::')[-1], tr, meth))
            if f is not None:
                break
        if f is not None:
            cx = Ref([Adt('Context', None, [])], 0)
            return ex.run_fn(f, [Adt('Pin', None, [ref if ref is not None else Ref([obj], 0)]), cx] + list(args))
    raise Unmodelled('async dyn %s::%s on %r' % (trait, meth, obj))


def handle_write_all(ex, h, data):
    data = as_S(data)
    while len(data):
        r = dyn_poll(ex, h, 'AsyncWrite', 'poll_write', [ValRef(data)])
        if r.variant != 'Ready':
            raise Unmodelled('pending async write')
        res = r.fields[0]
        if res.variant == 'Err':
            return res
        k = ex.concretize(res.fields[0], len(data))
        if not k:
            return Err(io_error('WriteZero'))
        data = S(data[k:])
    return Ok(UNIT)


def handle_read_to_end(ex, h, cap=None):
    cap = cap or ex.hooks.get('copy_buf', models.COPY_BUF)
    got = ()
    for _ in range(64):
        buf = [S((0,) * cap)]
        r = dyn_poll(ex, h, 'AsyncRead', 'poll_read', [Ref(buf, 0)])
        res = r.fields[0]
        if res.variant == 'Err':
            return res
        n = ex.concretize(res.fields[0], cap)
        if n is None:
            raise Panic('async reader returned more than the buffer size', 'read_to_end')
        if n == 0:
            return Ok(S(got))
        got += tuple(buf[0][:n])
    raise Bound('async read_to_end longer than 64 chunks')


@model(r'<.+ as (futures::|async_std::io::)?(AsyncWriteExt|WriteExt)>::(write_all|flush|close)(::<.*>)?|<.+ as async_std::io::prelude::WriteExt>::(write_all|flush)')
def m_write_ext(ex, c, a, m):
    h = a[0]
    op = m.group(3) or m.group(5)
    if op == 'write_all':
        data = a[1]
        return ExtFuture(ex, 'write_all', lambda: handle_write_all(ex, h, data))
    return ExtFuture(ex, op, lambda: Ok(UNIT))


@model(r'<.+ as (futures::|async_std::io::)?(AsyncReadExt|ReadExt)>::(read_to_string|read_to_end|read)(::<.*>)?')
def m_read_ext(ex, c, a, m):
    h, op = a[0], m.group(3)

    def go():
        if op == 'read':
            r = dyn_poll(ex, h, 'AsyncRead', 'poll_read', [a[1]])
            return r.fields[0]
        r = handle_read_to_end(ex, h)
        if r.variant == 'Err':
            return r
        got = r.fields[0]
        if op == 'read_to_string' and not ex.branch(models.utf8_valid(ex, got)):
            return Err(io_error('InvalidData', 'stream did not contain valid UTF-8'))
        a[1].set(S(as_S(a[1]) + tuple(got)))
        return Ok(len(got))
    return ExtFuture(ex, op, go)


@model(r'async_std::io::copy::<.+>|futures::io::copy::<.+>')
def m_async_copy(ex, c, a, m):
    src, dst = a[0], a[1]

    def go():
        cap = ex.hooks.get('copy_buf', models.COPY_BUF)
        total = 0
        for _ in range(64):
            buf = [S((0,) * cap)]
            r = dyn_poll(ex, src, 'AsyncRead', 'poll_read', [Ref(buf, 0)]).fields[0]
            if r.variant == 'Err':
                return r
            n = ex.concretize(r.fields[0], cap)
            if n is None:
                raise Panic('async reader returned more than the buffer size', 'async io::copy')
            if n == 0:
                return Ok(total)
            w = handle_write_all(ex, dst, S(buf[0][:n]))
            if w.variant == 'Err':
                return w
            total += n
        raise Bound('async io::copy longer than 64 chunks')
    return ExtFuture(ex, 'copy', go)


# ------------------------------------------------------------------------------------------ streams

@model(r'(futures::stream::)?iter::<.+>|async_std::stream::from_iter::<.+>')
def m_stream_iter(ex, c, a, m):
    v = a[0]
    dv = d(v)
    if isinstance(dv, SymMap):
        return call_model(ex, '<HashSet<String> as IntoIterator>::into_iter', [v])
    if type(dv) is list:
        return PyIter(dv)
    return dv


@model(r'<.+ as (futures::)?StreamExt>::(map|filter_map|filter)::<.+>')
def m_stream_adapt(ex, c, a, m):
    return LazyIter(m.group(2), a[0], a[1])


def stream_next(ex, st, cx):
    """poll_next of a stream object: PyIter / LazyIter are always ready; crate streams run their poll_next MIR"""
    obj, ref = unwrap_future(st)
    if isinstance(obj, (PyIter, LazyIter)):
        return Ready(iter_next(ex, obj))
    if type(obj) is Adt:
        f = ex.prog.by_trait_impl.get((obj.name.split('::')[-1], 'Stream', 'poll_next'))
        if f is not None:
            return ex.run_fn(f, [Adt('Pin', None, [ref if ref is not None else Ref([obj], 0)]), cx])
    raise Unmodelled('Stream::poll_next on %r' % (obj,))


class NextFuture(ExtFuture):
    def __init__(self, ex, stream):
        self.stream = stream

    def poll(self, ex):
        return stream_next(ex, self.stream, Ref([Adt('Context', None, [])], 0))


@model(r'<.+ as (futures::)?StreamExt>::next|<.+ as async_std::stream::StreamExt>::next')
def m_stream_next(ex, c, a, m):
    return NextFuture(ex, a[0])


@model(r'<.+ as (futures::)?Stream>::poll_next|<Pin<.+> as (futures::)?Stream>::poll_next|<Box<.+> as (futures::)?Stream>::poll_next')
def m_stream_poll_next(ex, c, a, m):
    return stream_next(ex, a[0], a[1])


@model(r'<.+ as (futures::)?StreamExt>::poll_next_unpin')
def m_stream_poll_next_unpin(ex, c, a, m):
    return stream_next(ex, a[0], a[1])


@model(r'<.+ as (futures::)?StreamExt>::collect::<.+>')
def m_stream_collect(ex, c, a, m):
    st = a[0]

    def go():
        out = []
        cx = Ref([Adt('Context', None, [])], 0)
        for _ in range(4000):
            r = stream_next(ex, st, cx)
            if r.variant == 'Pending':
                continue
            o = r.fields[0]
            if o.variant == 'None':
                return out
            out.append(o.fields[0])
        raise Bound('stream longer than bound')
    return ExtFuture(ex, 'collect', go)


@model(r'<Pin<&mut .+> as DerefMut>::deref_mut|Pin::<&mut .+>::as_mut|<Pin<Box<.+>> as DerefMut>::deref_mut|Pin::<Box<.+>>::as_mut')
def m_pin_as_mut(ex, c, a, m):
    obj, ref = unwrap_future(a[0])
    if c.endswith('as_mut'):
        return Adt('Pin', None, [ref if ref is not None else Ref([obj], 0)])
    return ref if ref is not None else Ref([obj], 0)


@model(r'std::task::Poll::<.+>::(is_ready|is_pending)|Poll::<.+>::(is_ready|is_pending|map)(::<.*>)?')
def m_poll_misc(ex, c, a, m):
    p = d(a[0])
    op = m.group(1) or m.group(2)
    if op == 'is_ready':
        return p.variant == 'Ready'
    if op == 'is_pending':
        return p.variant == 'Pending'
    if op == 'map':
        return Ready(ex.call_closure(a[1], [p.fields[0]])) if p.variant == 'Ready' else p
    raise Unmodelled('call ' + c)
