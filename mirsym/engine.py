"""mirsym: symbolic execution of rustc MIR (text dump) with z3 bit-vector queries.

Heap structure (maps, vectors, string lengths, enum variants, trait objects) is concrete per
execution path; scalars and bytes may be solver terms.  Every decision on a non-constant
condition goes through Exec.branch(), which asks the solver which sides are feasible.
"""
import os
import re
import time
import z3

from .parser import (parse_mir, compile_fn, strip_generics, INT_TYPES, Place)
from .values import *   # noqa

MAX_LOOP = int(os.environ.get('MIRSYM_MAX_LOOP', '64'))
MAX_STEPS = int(os.environ.get('MIRSYM_MAX_STEPS', '400000'))

STD_ENUMS = {
    'Option': ['None', 'Some'], 'Result': ['Ok', 'Err'], 'ControlFlow': ['Continue', 'Break'],
    'Entry': ['Occupied', 'Vacant'], 'BTreeEntry': ['Vacant', 'Occupied'], 'SeekFrom': ['Start', 'End', 'Current'], 'Poll': ['Ready', 'Pending'],
    'Cow': ['Borrowed', 'Owned'], 'Ordering': ['Less', 'Equal', 'Greater'], 'Bound': ['Included', 'Excluded', 'Unbounded'],
    # std::io::ErrorKind, order of the installed nightly's core/src/io/error.rs
    'ErrorKind': 'NotFound PermissionDenied ConnectionRefused ConnectionReset HostUnreachable NetworkUnreachable '
                 'ConnectionAborted NotConnected AddrInUse AddrNotAvailable NetworkDown BrokenPipe AlreadyExists WouldBlock '
                 'NotADirectory IsADirectory DirectoryNotEmpty ReadOnlyFilesystem FilesystemLoop StaleNetworkFileHandle '
                 'InvalidInput InvalidData TimedOut WriteZero StorageFull NotSeekable QuotaExceeded FileTooLarge ResourceBusy '
                 'ExecutableFileBusy Deadlock CrossesDevices TooManyLinks InvalidFilename ArgumentListTooLong Interrupted '
                 'Unsupported UnexpectedEof OutOfMemory InProgress Other Uncategorized'.split(),
}


_LS = {}


def last_seg(ty):
    """impls::memory::MemoryFS<T> -> MemoryFS"""
    r = _LS.get(ty)
    if r is None:
        r = _LS[ty] = _last_seg_uncached(ty)
    return r


def _last_seg_uncached(ty):
    ty = strip_generics(ty.strip())
    ty = re.sub(r"^&(?:'\w+ )?(?:mut )?", '', ty)
    return ty.split('::')[-1]


def norm_trait(trait):
    """std::convert::From<error::VfsErrorKind> -> From<VfsErrorKind>"""
    t = re.sub(r"(\w+::)+", '', trait.strip())
    return t.replace(' ', '')


# ----------------------------------------------------------------------------------------- program

class Program:
    """parsed MIR dump + indexes for call resolution; built once per check run from the fresh dump"""

    def __init__(self, mir_text, src_root, features=()):
        self.fns, self.consts, self.order = parse_mir(mir_text)
        self.src_root, self.features = src_root, set(features)
        # one-line named constants of the crate: `const MAX: usize = const 64_usize;`
        from .parser import _CONST1_RE, parse_const
        self.const_values = {m.group(1).strip().split('::')[-1]: parse_const(m.group(2).strip()) for m in _CONST1_RE.finditer(mir_text)}
        # allocN (static: NAME, ...) listings that follow a function body: (position, alloc id) -> static name
        self.static_allocs = [(m.start(), m.group(1), m.group(2)) for m in re.finditer(r'^(alloc\d+) \(static: (.+?), size: ', mir_text, re.M)]
        self.by_type_method = {}     # (Type, method) -> [Fn]
        self.by_trait_impl = {}      # (Type, Trait, method) -> Fn
        self.defaults = {}           # (Trait, method) -> Fn
        self.free = {}               # name -> Fn
        self.closures = {}           # '{closure@...}' -> Fn
        self.promoted = {}           # fn name -> {idx: Fn}
        self.enums = dict(STD_ENUMS)
        self.struct_fields = {}      # struct last-seg -> [field names]
        self.drop_impls = {}         # Type -> Fn
        self._src_cache = {}
        self._index()
        self._scan_enums()
        self._scan_structs()

    def _scan_structs(self):
        self._sorder = {}
        for root, _, files in os.walk(os.path.join(self.src_root, 'src')):
            for fn_ in files:
                if not fn_.endswith('.rs'):
                    continue
                text = open(os.path.join(root, fn_), encoding='utf-8').read()
                for m in re.finditer(r'\bstruct (\w+)\b[^;{(]*\{(.*?)\n\}', text, re.S):
                    body = re.sub(r'//[^\n]*', '', m.group(2))
                    body = re.sub(r'#\[[^\]]*\]', '', body)
                    self._sorder.setdefault(m.group(1), re.findall(r'(?:pub(?:\([^)]*\))? )?(\w+)\s*:', body))

    def struct_order(self, name):
        """field names of a crate struct in declaration order (read from the source)"""
        cache = self.__dict__.setdefault('_sorder', {})
        if name in cache:
            return cache[name]
        for root, _, files in os.walk(os.path.join(self.src_root, 'src')):
            for fn_ in files:
                if not fn_.endswith('.rs'):
                    continue
                text = open(os.path.join(root, fn_), encoding='utf-8').read()
                m = re.search(r'\bstruct %s\b[^;{(]*\{(.*?)\n\}' % re.escape(name), text, re.S)
                if m:
                    body = re.sub(r'//[^\n]*', '', m.group(1))
                    body = re.sub(r'#\[[^\]]*\]', '', body)
                    fields = re.findall(r'(?:pub(?:\([^)]*\))? )?(\w+)\s*:', body)
                    cache[name] = fields
                    return fields
        raise Unmodelled('struct %s not found in the source' % name)

    def _src_line(self, file, line):
        lines = self._src_cache.get(file)
        if lines is None:
            try:
                lines = open(os.path.join(self.src_root, file), encoding='utf-8').read().split('\n')
            except OSError:
                lines = []
            self._src_cache[file] = lines
        return lines[line - 1] if 0 < line <= len(lines) else ''

    def _impl_header(self, file, line, col):
        """read `impl<..> Trait for Type {` starting at file:line:col (may span lines)"""
        text = self._src_line(file, line)[col - 1:]
        k = line
        while '{' not in text and k < line + 6:
            k += 1
            text += ' ' + self._src_line(file, k).strip()
        text = text.split('{')[0].strip()
        if text.startswith('#[derive') or not text.startswith(('impl', 'unsafe impl')):
            # derive: the span points into #[derive(A, B)]; trait name is the word at the span
            m = re.match(r'(\w+)', text)
            trait = m.group(1) if m else None
            # type: next struct/enum definition after this line
            for j in range(line, line + 30):
                mm = re.match(r'\s*(?:pub(?:\([^)]*\))? )?(?:struct|enum) (\w+)', self._src_line(file, j))
                if mm:
                    return mm.group(1), trait
            return None, trait
        text = re.sub(r'^(unsafe )?impl', '', text).strip()
        if text.startswith('<'):
            d = 0
            for i, ch in enumerate(text):
                if ch == '<':
                    d += 1
                elif ch == '>':
                    d -= 1
                    if d == 0:
                        break
            text = text[i + 1:].strip()
        text = text.split(' where ')[0].strip()
        if ' for ' in text:
            trait, ty = text.split(' for ', 1)
            return last_seg(ty), norm_trait(trait)
        return last_seg(text), None

    def _index(self):
        last_fn = None
        for f in self.order:
            if getattr(f, 'kind', 'fn') != 'fn':
                m = re.match(r'(.+)::promoted\[(\d+)\]', f.name)
                if m and last_fn is not None:
                    self.promoted.setdefault(id(last_fn), {})[int(m.group(2))] = f
                else:
                    self.free[f.name] = f
                continue
            last_fn = f
            name = f.name
            m = re.search(r'<impl at ([^:>]+):(\d+):(\d+): \d+:\d+>::(.+)$', name)
            if m:
                file, line, col, rest = m.group(1), int(m.group(2)), int(m.group(3)), m.group(4)
                ty, trait = self._impl_header(file, line, col)
                f.impl_type, f.impl_trait = ty, trait
                f.short = '%s::%s' % (ty, rest) if not trait else '<%s as %s>::%s' % (ty, trait, rest)
                if '{closure#' in rest or '{constant#' in rest:
                    self._index_closure(f)
                    continue
                meth = rest
                self.by_type_method.setdefault((ty, meth), []).append(f)
                if trait:
                    self.by_trait_impl[(ty, trait, meth)] = f
                    bare = trait.split('<')[0]
                    if bare != trait:
                        self.by_trait_impl.setdefault((ty, bare, meth), f)
                    if trait == 'Drop' and meth == 'drop':
                        self.drop_impls[ty] = f
                continue
            if '{closure#' in name:
                self._index_closure(f)
                continue
            parts = strip_generics(name).split('::')
            if len(parts) >= 2 and f.params and re.match(r'&(mut )?Self$|Self$', f.params[0][1]):
                self.defaults[(parts[-2], parts[-1])] = f
            elif len(parts) >= 2 and parts[-2][:1].isupper():
                # Trait::method default bodies without self, enum constructor fns
                self.defaults[(parts[-2], parts[-1])] = f
                self.free[name] = f
            else:
                self.free[name] = f

    def _index_closure(self, f):
        if f.params:
            m = re.search(r'\{(?:closure|coroutine|async \w+)@[^}]*\}', f.params[0][1])
            if m:
                self.closures[m.group(0)] = f

    def _scan_enums(self):
        """variant order of the crate's enums, honouring #[cfg(feature = "x")] on variants"""
        for root, _, files in os.walk(os.path.join(self.src_root, 'src')):
            for fn_ in files:
                if not fn_.endswith('.rs'):
                    continue
                text = open(os.path.join(root, fn_), encoding='utf-8').read()
                for m in re.finditer(r'\benum (\w+)(?:<[^>]*>)?\s*\{', text):
                    name, i, d = m.group(1), m.end(), 1
                    j = i
                    while j < len(text) and d:
                        d += {'{': 1, '}': -1}.get(text[j], 0)
                        j += 1
                    body = text[i:j - 1]
                    body = re.sub(r'//[^\n]*', '', body)
                    variants, skip = [], False
                    depth = 0
                    for tok in re.finditer(r'#\[cfg\(feature = "([^"]+)"\)\]|#\[[^\]]*\]|[(){}]|\b([A-Z]\w*)\b|,', body):
                        t = tok.group(0)
                        if t in '({':
                            depth += 1
                        elif t in ')}':
                            depth -= 1
                        elif depth == 0:
                            if tok.group(1):
                                skip = tok.group(1) not in self.features
                            elif tok.group(2):
                                if not variants or variants[-1] is not None:
                                    variants.append(None)
                                if variants[-1] is None:
                                    variants[-1] = ('SKIP' if skip else tok.group(2))
                                    skip = False
                            elif t == ',':
                                pass
                    # the regex above appends one entry per capitalised word at depth 0; keep first word per variant
                    self.enums[name] = [v for v in self._enum_variants(body) ]

    def _enum_variants(self, body):
        out, depth, skip, cur = [], 0, False, None
        i, n = 0, len(body)
        expect = True
        while i < n:
            ch = body[i]
            if ch in '({[':
                depth += 1
            elif ch in ')}]':
                depth -= 1
            elif depth == 0:
                if ch == '#':
                    j = body.index(']', i)
                    attr = body[i:j + 1]
                    m = re.match(r'#\[cfg\(feature = "([^"]+)"\)\]', attr)
                    if m and m.group(1) not in self.features:
                        skip = True
                    i = j + 1
                    continue
                if ch == ',':
                    expect = True
                elif expect and (ch.isalpha() or ch == '_'):
                    m = re.match(r'\w+', body[i:])
                    if not skip:
                        out.append(m.group(0))
                    skip = False
                    expect = False
                    i += len(m.group(0))
                    continue
            i += 1
        return out


# ----------------------------------------------------------------------------------------- statistics

class _VarRef(Ref):
    """storage of one resume-state variant of a lowered coroutine: .field(k) -> slot (variant, k)"""
    __slots__ = ('store', 'variant')

    def __init__(self, store, variant):
        self.store, self.variant = store, variant
        self.cont, self.key, self.proj = None, None, ()

    def field(self, k):
        return Ref(self.store, (self.variant, k))

    def get(self):
        raise Unmodelled('whole coroutine variant read')


class Stats:
    def __init__(self):
        self.paths = self.queries = self.sat = self.unsat = self.pruned = self.steps = 0
        self.solver_s = 0.0
        self.asserts = self.discharged = 0
        self.model_hits = 0
        self.fn_blocks = {}       # fn short name -> set of executed blocks
        self.models_used = {}     # callee -> count
        self.panics = 0

    def merge(self, o):
        for k in ('paths', 'queries', 'sat', 'unsat', 'pruned', 'steps', 'asserts', 'discharged', 'model_hits', 'panics'):
            setattr(self, k, getattr(self, k) + getattr(o, k))
        self.solver_s += o.solver_s
        for k, v in o.fn_blocks.items():
            self.fn_blocks.setdefault(k, set()).update(v)
        for k, v in o.models_used.items():
            self.models_used[k] = self.models_used.get(k, 0) + v


# ----------------------------------------------------------------------------------------- executor

class Exec:
    """one execution path. Decisions beyond the replayed prefix are made by the solver."""

    def __init__(self, prog, solver, prefix, stats, release=False, qtimeout_ms=10000):
        self.prog, self.solver, self.stats = prog, solver, stats
        self.prefix, self.pos = prefix, 0
        self.decisions = []            # decisions taken on this path
        self.pending = []              # alternative prefixes discovered on this path
        self.pc = []
        self.nsym = 0
        self.steps = 0
        self.release = release         # release arithmetic: overflow asserts are skipped
        self.model = None              # a model of the current pc, if known
        self.qtimeout_ms = qtimeout_ms
        self.trace_calls = None        # optional list collecting (depth, callee)
        self.dispatch_log = None       # optional list of (fs value id, method, path S) for dyn FileSystem calls
        self.hooks = {}                # name -> python callable hooks (fault switch, scheduler, ...)
        self.depth = 0
        self.cur_fn = None
        self.thread = 0                # id of the engine thread currently running
        self.assumptions = []
        self.time_counter = 0
        from . import models
        self.models = models

    # ------------------------------------------------------------------ symbols / solver
    def fresh(self, pfx, bits=8):
        self.nsym += 1
        return z3.BitVec('%s!%d' % (pfx, self.nsym), bits)

    def fresh_bool(self, pfx):
        self.nsym += 1
        return z3.Bool('%s!%d' % (pfx, self.nsym))

    def _model(self):
        m = getattr(self, '_alt_model', None)
        if m is not None:
            self._alt_model = None
            return m
        return self.solver.model()

    def _check(self, *extra):
        self._alt_model = None
        t = time.time()
        self.stats.queries += 1
        r = self.solver.check(*extra)
        self.stats.solver_s += time.time() - t
        if r == z3.sat:
            self.stats.sat += 1
        elif r == z3.unsat:
            self.stats.unsat += 1
        else:
            # retry once, non-incrementally (a fresh solver uses the full bit-vector tactic pipeline) with a longer limit
            s2 = z3.SolverFor('QF_BV')
            s2.set('timeout', max(60000, self.qtimeout_ms * 6))
            s2.add(*self.pc)
            s2.add(*extra)
            t = time.time()
            r = s2.check()
            self.stats.solver_s += time.time() - t
            self.stats.queries += 1
            if r == z3.sat:
                self.stats.sat += 1
                self._alt_model = s2.model()
            elif r == z3.unsat:
                self.stats.unsat += 1
            else:
                raise Unmodelled('solver returned unknown: %s' % s2.reason_unknown())
        return r

    def assume(self, cond):
        """add a harness assumption to the path condition (must be satisfiable)"""
        if cond is True:
            return
        if cond is False:
            raise Infeasible()
        cond = z3.simplify(cond)
        if z3.is_true(cond):
            return
        if z3.is_false(cond):
            raise Infeasible()
        self.pc.append(cond)
        self.solver.add(cond)
        if self.pos >= len(self.prefix):
            if self.model is not None and z3.is_true(self.model.eval(cond, model_completion=True)):
                return
            if self._check() != z3.sat:
                raise Infeasible()
            self.model = self._model()

    def branch(self, cond):
        """decide a condition: returns a Python bool; forks when both sides are feasible"""
        if cond is True or cond is False:
            return cond
        if not isinstance(cond, z3.ExprRef):
            return bool(cond)
        cond = z3.simplify(cond)
        if z3.is_true(cond):
            return True
        if z3.is_false(cond):
            return False
        if self.pos < len(self.prefix):
            d = self.prefix[self.pos]
            self.pos += 1
            self.decisions.append(d)
            c = cond if d else z3.Not(cond)
            self.pc.append(c)
            self.solver.add(c)
            return bool(d)
        known = None
        if self.model is not None:
            e = self.model.eval(cond, model_completion=True)
            if z3.is_true(e):
                known = True
            elif z3.is_false(e):
                known = False
        ncond = z3.Not(cond)
        if known is None:
            r1 = self._check(cond)
            if r1 == z3.sat:
                self.model = self._model()
                known = True
            else:
                # pc is satisfiable by construction, so the other side is feasible
                self.stats.pruned += 1
                self.pc.append(ncond); self.solver.add(ncond)
                self.decisions.append(0); self.pos += 1
                self.model = None
                return False
        else:
            self.stats.model_hits += 1
        other = ncond if known else cond
        r = self._check(other)
        if r == z3.sat:
            self.pending.append(self.decisions + [0 if known else 1])
        else:
            self.stats.pruned += 1
        c = cond if known else ncond
        self.pc.append(c); self.solver.add(c)
        self.decisions.append(1 if known else 0); self.pos += 1
        return known

    def choose(self, n, label=''):
        """harness-level n-way choice (every alternative is explored)"""
        if n <= 1:
            return 0
        if self.pos < len(self.prefix):
            d = self.prefix[self.pos]
            self.pos += 1
            self.decisions.append(d)
            return d
        for k in range(n - 1, 0, -1):
            self.pending.append(self.decisions + [k])
        self.decisions.append(0); self.pos += 1
        return 0

    def concretize(self, x, hi, lo=0):
        """split a symbolic integer used as an index/length into its feasible values lo..hi;
        returns the concrete value, or None for 'outside lo..hi'"""
        if type(x) is int:
            return x if lo <= x <= hi else None
        for v in range(lo, hi + 1):
            if self.branch(x == z3.BitVecVal(v, x.size())):
                return v
        return None

    def check(self, cond, label=''):
        """assertion: pc ∧ ¬cond must be unsat. Returns None if discharged, else a z3 model"""
        self.stats.asserts += 1
        if cond is True:
            self.stats.discharged += 1
            return None
        if cond is False:
            if self.model is None:
                self._check()
                self.model = self._model()
            return self.model
        cond = z3.simplify(cond)
        if z3.is_true(cond):
            self.stats.discharged += 1
            return None
        r = self._check(z3.Not(cond))
        if r == z3.unsat:
            self.stats.discharged += 1
            return None
        return self._model()

    def any_model(self):
        if self.model is None:
            self._check()
            self.model = self._model()
        return self.model

    # ------------------------------------------------------------------ types
    def operand_type(self, f, op):
        k = op[0]
        if k == 'const':
            c = op[1]
            if c[0] == 'int':
                return c[2]
            if c[0] == 'bool':
                return 'bool'
            if c[0] == 'char':
                return 'char'
            return None
        return self.place_type(f, op[1])

    def place_type(self, f, place):
        if place.ty is not None and place.proj and place.proj[-1][0] == 'field':
            return place.ty.strip()
        ty = f.locals.get(place.local)
        for p in place.proj:
            if ty is None:
                return None
            if p[0] == 'deref':
                ty = re.sub(r"^(&(?:'\w+ )?(?:mut )?|\*const |\*mut )", '', ty.strip())
            elif p[0] in ('index', 'constindex'):
                m = re.fullmatch(r'\[(.+?)(?:; .+)?\]', ty.strip())
                ty = m.group(1) if m else None
            else:
                return None
        return ty.strip() if ty else None

    # ------------------------------------------------------------------ places
    def loc(self, fr, place):
        r = Ref(fr, place.local, ())
        for p in place.proj:
            k = p[0]
            if k == 'field':
                r = r.field(p[1])
            elif k == 'deref':
                v = r.get()
                if isinstance(v, Ref):
                    r = v
                elif type(v) is Adt and v.name == 'Box':
                    r = Ref(v.extra, 0)
                elif isinstance(v, ArcObj):
                    r = Ref(v.cell, 0)
                else:
                    raise Unmodelled('deref of %r in %s' % (v, place.text))
            elif k == 'downcast':
                if p[1].startswith('variant#'):
                    v = r.get()
                    if type(v) is Adt and isinstance(v.extra, dict) and 'vars' in v.extra:
                        r = _VarRef(v.extra['vars'], int(p[1][8:]))
            elif k == 'index':
                idx = fr[p[1]]
                cont = r.get()
                n = len(cont)
                iv = self.concretize(idx, n - 1)
                if iv is None:
                    raise Panic('index out of bounds', self.cur_fn.short if self.cur_fn else '')
                r = r.field(iv)
            elif k == 'constindex':
                r = r.field(p[1])
            else:
                raise Unmodelled('projection %r' % (p,))
        return r

    def operand(self, fr, op):
        k = op[0]
        if k == 'move':
            pl = op[1]
            if not pl.proj:
                return fr[pl.local]
            return self.loc(fr, pl).get()
        if k == 'copy':
            pl = op[1]
            v = fr[pl.local] if not pl.proj else self.loc(fr, pl).get()
            if type(v) is Adt:
                return copyval(v)
            return v
        return self.const(fr, op[1])

    def const(self, fr, c):
        k = c[0]
        if k == 'int':
            return c[1]
        if k == 'bool':
            return c[1]
        if k in ('str', 'bytes'):
            return S(c[1])
        if k == 'char':
            return c[1]
        if k == 'unit':
            return UNIT
        if k == 'zst':
            return Adt(c[1], None, [])
        if k == 'promoted':
            m = re.search(r'promoted\[(\d+)\]', c[1])
            pf = self.prog.promoted.get(id(self.cur_fn), {}).get(int(m.group(1)))
            if pf is None:
                raise Unmodelled('promoted ' + c[1])
            return self.run_body(pf, {})
        if k == 'path':
            m = re.match(r'\{(alloc\d+): &', c[1])
            if m:
                return self.static_ref(m.group(1))
            if c[1].split('::')[-1] == 'UNIX_EPOCH':
                return Adt('SystemTime', None, [0])
            cv = self.prog.const_values.get(c[1].split('::')[-1])
            if cv is not None and cv[0] != 'path':
                return self.const(fr, cv)
            cf = self.prog.consts.get(c[1])
            if cf and getattr(cf[0], 'kind', '') == 'const' and cf[0].raw_blocks:
                return self.run_body(cf[0], {})
            # named constant / unit struct / fn item
            return Adt(c[1], None, [])
        if k == 'float':
            return c[1]
        raise Unmodelled('const %r' % (c,))

    def static_ref(self, alloc):
        """reference to a `static` item: one cell per static and per path (= per process run), initialised on first
        use by running the static's own initialiser body from the dump"""
        pos = getattr(self.cur_fn, 'pos', 0)
        name = None
        for p_, a_, n_ in self.prog.static_allocs:
            if a_ == alloc and p_ > pos:
                name = n_
                break
        if name is None:
            raise Unmodelled('static behind ' + alloc)
        cells = self.__dict__.setdefault('statics', {})
        if name not in cells:
            tail = '::'.join(strip_generics(name).split('::')[-2:])
            cands = [fs_[0] for n_, fs_ in self.prog.consts.items() if getattr(fs_[0], 'kind', '').startswith('static') and
                     '::'.join(strip_generics(n_).split('::')[-2:]) == tail]
            if len(cands) != 1:
                raise Unmodelled('initialiser of static %s (%d candidates)' % (name, len(cands)))
            cells[name] = [None]
            cells[name][0] = self.run_body(cands[0], {})
        return Ref(cells[name], 0)

    # ------------------------------------------------------------------ integer arithmetic
    def int_info(self, ty):
        return INT_TYPES.get(ty, (64, False)) if ty else (64, False)

    def binop(self, f, op, a, b, ta):
        w, signed = self.int_info(ta)
        if op in ('Eq', 'Ne'):
            if isinstance(a, bool) or isinstance(b, bool) or z3.is_bool(a) or z3.is_bool(b):
                if isinstance(a, bool) and isinstance(b, bool):
                    r = a == b
                else:
                    a = z3.BoolVal(a) if isinstance(a, bool) else a
                    b = z3.BoolVal(b) if isinstance(b, bool) else b
                    r = a == b
                return r if op == 'Eq' else znot(r)
            if type(a) is Adt or type(b) is Adt:
                r = (a.variant == b.variant)
                return r if op == 'Eq' else not r
        if type(a) is int and type(b) is int:
            if op == 'Eq': return a == b
            if op == 'Ne': return a != b
            if op == 'Lt': return a < b
            if op == 'Le': return a <= b
            if op == 'Gt': return a > b
            if op == 'Ge': return a >= b
            if op in ('Add', 'AddUnchecked', 'AddWithOverflow'):
                r = a + b
            elif op in ('Sub', 'SubUnchecked', 'SubWithOverflow'):
                r = a - b
            elif op in ('Mul', 'MulUnchecked', 'MulWithOverflow'):
                r = a * b
            elif op == 'BitAnd': return a & b
            elif op == 'BitOr': return a | b
            elif op == 'BitXor': return a ^ b
            elif op in ('Shl', 'ShlUnchecked'): r = a << (b % w)
            elif op in ('Shr', 'ShrUnchecked'): return a >> (b % w)
            elif op == 'Div':
                if b == 0: raise Panic('attempt to divide by zero', f.short)
                r = abs(a) // abs(b) * (1 if (a < 0) == (b < 0) else -1)
            elif op == 'Rem':
                if b == 0: raise Panic('attempt to calculate the remainder with a divisor of zero', f.short)
                r = abs(a) % abs(b) * (1 if a >= 0 else -1)
            else:
                raise Unmodelled('binop ' + op)
            lo, hi = (-(1 << (w - 1)), (1 << (w - 1)) - 1) if signed else (0, (1 << w) - 1)
            ovf = r < lo or r > hi
            if ovf:
                r = (r - lo) % (1 << w) + lo
            if op.endswith('WithOverflow'):
                return Tup(r, ovf)
            return r
        # symbolic
        if isinstance(a, bool) or z3.is_bool(a):
            a = z3.BoolVal(a) if isinstance(a, bool) else a
            b = z3.BoolVal(b) if isinstance(b, bool) else b
            if op == 'BitAnd': return z3.And(a, b)
            if op == 'BitOr': return z3.Or(a, b)
            if op == 'BitXor': return z3.Xor(a, b)
            raise Unmodelled('bool binop ' + op)
        if is_sym(a):
            w = a.size()
        elif is_sym(b):
            w = b.size()
        A = z3.BitVecVal(a, w) if type(a) is int else a
        B = z3.BitVecVal(b, w) if type(b) is int else b
        if op == 'Eq': return A == B
        if op == 'Ne': return A != B
        if op == 'Lt': return (A < B) if signed else z3.ULT(A, B)
        if op == 'Le': return (A <= B) if signed else z3.ULE(A, B)
        if op == 'Gt': return (A > B) if signed else z3.UGT(A, B)
        if op == 'Ge': return (A >= B) if signed else z3.UGE(A, B)
        if op in ('Add', 'AddUnchecked'): return A + B
        if op in ('Sub', 'SubUnchecked'): return A - B
        if op in ('Mul', 'MulUnchecked'): return A * B
        if op == 'BitAnd': return A & B
        if op == 'BitOr': return A | B
        if op == 'BitXor': return A ^ B
        if op in ('Shl', 'ShlUnchecked'): return A << B
        if op in ('Shr', 'ShrUnchecked'): return (A >> B) if signed else z3.LShR(A, B)
        if op == 'AddWithOverflow':
            ovf = z3.Not(z3.BVAddNoOverflow(A, B, signed))
            if signed:
                ovf = z3.Or(ovf, z3.Not(z3.BVAddNoUnderflow(A, B)))
            return Tup(A + B, ovf)
        if op == 'SubWithOverflow':
            ovf = z3.Not(z3.BVSubNoUnderflow(A, B, signed))
            if signed:
                ovf = z3.Or(ovf, z3.Not(z3.BVSubNoOverflow(A, B)))
            return Tup(A - B, ovf)
        if op == 'MulWithOverflow':
            ovf = z3.Not(z3.BVMulNoOverflow(A, B, signed))
            if signed:
                ovf = z3.Or(ovf, z3.Not(z3.BVMulNoUnderflow(A, B)))
            return Tup(A * B, ovf)
        if op in ('Div', 'Rem'):
            if self.branch(B == z3.BitVecVal(0, w)):
                raise Panic('attempt to divide by zero', f.short)
            if op == 'Div':
                return (A / B) if signed else z3.UDiv(A, B)
            return z3.SRem(A, B) if signed else z3.URem(A, B)
        raise Unmodelled('binop ' + op)

    def int_cast(self, v, src_ty, dst_ty):
        sw, ssigned = self.int_info(src_ty)
        dw, dsigned = self.int_info(dst_ty)
        if isinstance(v, bool):
            return 1 if v else 0
        if z3.is_bool(v):
            return z3.If(v, z3.BitVecVal(1, dw), z3.BitVecVal(0, dw))
        if type(v) is int:
            r = v & ((1 << dw) - 1)
            if dsigned and r >= (1 << (dw - 1)):
                r -= (1 << dw)
            return r
        if is_sym(v):
            sw = v.size()
            if dw == sw:
                return v
            if dw < sw:
                return z3.Extract(dw - 1, 0, v)
            return z3.SignExt(dw - sw, v) if ssigned else z3.ZeroExt(dw - sw, v)
        if type(v) is Adt:     # enum as integer
            return self.discriminant(v)
        raise Unmodelled('int cast of %r' % (v,))

    def discriminant(self, v):
        if type(v) is not Adt:
            if isinstance(v, (Guard,)):
                return 0
            raise Unmodelled('discriminant of %r' % (v,))
        if v.variant is None:
            if isinstance(v.extra, dict) and 'state' in v.extra:
                return v.extra['state']
            return 0
        vs = self.prog.enums.get(last_seg(v.name))
        if vs is None or v.variant not in vs:
            raise Unmodelled('variant index of %s::%s' % (v.name, v.variant))
        return vs.index(v.variant)

    # ------------------------------------------------------------------ rvalues
    def rvalue(self, f, fr, rv):
        k = rv[0]
        if k == 'use':
            return self.operand(fr, rv[1])
        if k == 'ref':
            return self.loc(fr, rv[1])
        if k == 'discriminant':
            return self.discriminant(self.loc(fr, rv[1]).get())
        if k == 'variant':
            return Adt(rv[3], rv[4], [self.operand(fr, x) for x in rv[2]])
        if k == 'struct':
            name = rv[1]
            if name.startswith('{'):
                a = Adt(name, None, [self.operand(fr, op) for _, op in rv[2]])
                if name.startswith('{coroutine@'):
                    # lowered async fn / async block: resume state + variant-local storage (see asyncrt.py)
                    a.extra = {'state': 0, 'vars': {}, 'parent': f}
                return a
            key = rv[3]
            if key not in self.prog.struct_fields:
                self.prog.struct_fields[key] = [fn_ for fn_, _ in rv[2]]
            return Adt(key, None, [self.operand(fr, op) for _, op in rv[2]])
        if k == 'cast':
            v = self.operand(fr, rv[1])
            kind = rv[3]
            if kind == 'IntToInt':
                return self.int_cast(v, self.operand_type(f, rv[1]), rv[2].strip())
            return v            # Transmute / PtrToPtr / PointerCoercion(Unsize...) keep the value
        if k == 'binop':
            a, b = self.operand(fr, rv[2]), self.operand(fr, rv[3])
            ta = self.operand_type(f, rv[2]) or self.operand_type(f, rv[3])
            return self.binop(f, rv[1], a, b, ta)
        if k == 'unop':
            v = self.operand(fr, rv[2])
            if rv[1] == 'Not':
                if isinstance(v, bool):
                    return not v
                if z3.is_bool(v):
                    return z3.Not(v)
                w, _ = self.int_info(self.operand_type(f, rv[2]))
                return (~v) & ((1 << w) - 1) if type(v) is int else ~v
            if rv[1] == 'Neg':
                return -v
            if rv[1] == 'PtrMetadata':
                return len(deref(v))
            raise Unmodelled('unop ' + rv[1])
        if k == 'tuple':
            return Tup(*[self.operand(fr, x) for x in rv[1]])
        if k == 'array':
            return [self.operand(fr, x) for x in rv[1]]
        if k == 'len':
            return len(self.loc(fr, rv[1]).get())
        if k == 'repeat':
            v = self.operand(fr, rv[1])
            n = int(re.match(r'(\d+)', rv[2].replace('const ', '')).group(1))
            return S([v] * n) if type(v) is int or is_sym(v) else [copyval(v) for _ in range(n)]
        raise Unmodelled('rvalue %r' % (rv,))

    # ------------------------------------------------------------------ running functions
    def run_fn(self, f, args):
        if len(f.params) != len(args):
            raise Unmodelled('arity %s: %d params, %d args' % (f.name, len(f.params), len(args)))
        fr = {}
        for (p, _), v in zip(f.params, args):
            fr[p] = v
        return self.run_body(f, fr)

    def run_body(self, f, fr):
        if not f.blocks:
            compile_fn(f)
        saved = self.cur_fn
        self.cur_fn = f
        self.depth += 1
        if self.depth > 180:
            raise Bound('call depth > 180 in ' + f.short)
        cov = self.stats.fn_blocks.get(f.short)
        if cov is None:
            cov = self.stats.fn_blocks[f.short] = set()
        visits = None
        try:
            bb = 'bb0'
            blocks = f.blocks
            while True:
                stmts, term = blocks[bb]
                if bb in cov and visits is not None or bb in cov:
                    if visits is None:
                        visits = {}
                    c = visits[bb] = visits.get(bb, 0) + 1
                    if c > MAX_LOOP:
                        raise Bound('loop bound %d at %s %s' % (MAX_LOOP, f.short, bb))
                cov.add(bb)
                self.steps += len(stmts) + 1
                if self.steps > MAX_STEPS:
                    raise Bound('statement bound %d' % MAX_STEPS)
                for st in stmts:
                    if st[0] == 'assign':
                        pl = st[1]
                        v = self.rvalue(f, fr, st[2])
                        if not pl.proj:
                            fr[pl.local] = v
                        else:
                            self.loc(fr, pl).set(v)
                    elif st[0] == 'setdiscr':
                        v = self.loc(fr, st[1]).get()
                        if isinstance(v.extra, dict):
                            v.extra['state'] = st[2]
                        else:
                            raise Unmodelled('SetDiscriminant on %r' % (v,))
                k = term[0]
                if k == 'goto':
                    bb = term[1]
                elif k == 'call':
                    _, dst, callee, aops, nxt = term
                    args = [self.operand(fr, x) for x in aops]
                    val = self.call(callee, args)
                    self.cur_fn = f
                    if nxt is None:
                        raise Unmodelled('diverging call returned: ' + callee)
                    if not dst.proj:
                        fr[dst.local] = val
                    else:
                        self.loc(fr, dst).set(val)
                    bb = nxt
                elif k == 'switch':
                    v = self.operand(fr, term[1])
                    bb = self.switch(f, v, term)
                elif k == 'return':
                    return fr.get('_0', UNIT)
                elif k == 'drop':
                    pl = term[1]
                    try:
                        v = fr[pl.local] if not pl.proj else self.loc(fr, pl).get()
                    except KeyError:
                        v = None
                    if v is not None:
                        self.drop_value(v)
                        self.cur_fn = f
                    bb = term[2]
                elif k == 'assert':
                    _, neg, cop, msg, nxt = term
                    c = self.operand(fr, cop)
                    if neg:
                        c = znot(c)
                    overflow = 'overflow' in msg
                    if overflow and self.release:
                        pass
                    elif not self.branch(c):
                        self.stats.panics += 1
                        raise Panic(msg.split('"')[0][:80], f.short)
                    bb = nxt
                elif k == 'unreachable':
                    raise Unmodelled('reached `unreachable` in %s %s' % (f.short, bb))
                else:
                    raise Unmodelled('terminator %r in %s' % (term, f.short))
        finally:
            self.depth -= 1
            self.cur_fn = saved

    def switch(self, f, v, term):
        _, _, cases, other = term
        if type(v) is int:
            for val, tb in cases:
                if v == val:
                    return tb
            return other
        if isinstance(v, bool):
            iv = 1 if v else 0
            for val, tb in cases:
                if iv == val:
                    return tb
            return other
        if z3.is_bool(v):
            for val, tb in cases:
                if self.branch(v if val else z3.Not(v)):
                    return tb
            return other
        if is_sym(v):
            for val, tb in cases:
                if self.branch(v == z3.BitVecVal(val, v.size())):
                    return tb
            return other
        raise Unmodelled('switch on %r' % (v,))

    # ------------------------------------------------------------------ drop
    def drop_value(self, v, seen=None):
        t = type(v)
        if t is Adt:
            if v.name == 'Box':
                self.drop_value(v.extra[0])
                return
            if v.variant is None and not v.name.startswith('{'):
                df = self.prog.drop_impls.get(last_seg(v.name))
                if df is not None:
                    self.run_fn(df, [Ref([v], 0)])
            for x in v.fields:
                if type(x) in (Adt, Guard, list) :
                    self.drop_value(x)
        elif t is Guard:
            self.models.release_guard(self, v)
        elif t is list:
            for x in v:
                if type(x) in (Adt, Guard):
                    self.drop_value(x)
        elif t is PyIter:
            pass

    # ------------------------------------------------------------------ calls
    def runtime_type(self, v):
        v = deref(v)
        if type(v) is Adt:
            if v.name == 'Box':
                return self.runtime_type(v.extra[0])
            return last_seg(v.name) if not v.name.startswith('{') else v.name
        return type(v).__name__

    _GENERIC_SELF = re.compile(r'^(dyn .*|Self|[A-Z]|impl .*)$')

    def resolve(self, callee, args):
        """-> Fn or None (model needed). Results are cached per callee string (and per runtime
        receiver type for dyn/generic receivers)"""
        cache = self.prog.__dict__.setdefault('_rcache', {})
        ent = cache.get(callee)
        if ent is None:
            ent = cache[callee] = self._describe(callee)
        kind = ent[0]
        if kind == 'static':
            return ent[1]
        if kind == 'dyn':
            if not args:
                return None
            rt = self.runtime_type(args[0])
            sub = ent[2]
            if rt in sub:
                return sub[rt]
            f = sub[rt] = self._lookup_trait(rt, ent[1][0], ent[1][1], ent[1][2])
            return f
        if kind == 'ambiguous':
            if args:
                rt = self.runtime_type(args[0])
                cc = [x for x in ent[1] if x.impl_type == rt]
                if len(cc) == 1:
                    return cc[0]
            raise Unmodelled('ambiguous call %s' % callee)
        return None

    def _lookup_trait(self, tyseg, tfull, tseg, meth):
        prog = self.prog
        f = prog.by_trait_impl.get((tyseg, tfull, meth))
        if f is None and tfull == tseg:
            f = prog.by_trait_impl.get((tyseg, tseg, meth))
        if f is not None:
            return f
        if (tyseg, meth) in prog.by_type_method and self._crate_type(tyseg):
            c = [x for x in prog.by_type_method[(tyseg, meth)] if x.impl_trait in (None, tseg, tfull)]
            if len(c) == 1:
                return c[0]
        f = prog.defaults.get((tseg, meth))
        if f is not None and self._crate_type(tyseg):
            return f
        return None

    def _describe(self, callee):
        prog = self.prog
        if callee.startswith('<'):
            # <T as Trait<..>>::method::<..>
            d, i = 0, 0
            for i, ch in enumerate(callee):
                if ch == '<':
                    d += 1
                elif ch == '>' and callee[i - 1] not in '-=':
                    d -= 1
                    if d == 0:
                        break
            inner, rest = callee[1:i], callee[i + 1:]
            if ' as ' not in inner:
                return ('static', None)
            dd = 0
            split = None
            for j in range(len(inner)):
                ch = inner[j]
                if ch in '<([':
                    dd += 1
                elif ch in ')]' or (ch == '>' and inner[j - 1] not in '-='):
                    dd -= 1
                elif dd == 0 and inner.startswith(' as ', j):
                    split = j
            if split is None:
                return ('static', None)
            ty, trait = inner[:split].strip(), inner[split + 4:].strip()
            meth = strip_generics(rest.lstrip(':'))
            tfull = norm_trait(trait)
            tseg = tfull.split('<')[0]
            if ty.startswith('{closure@') or ty.startswith('{coroutine@'):
                return ('static', None)
            if self._GENERIC_SELF.match(ty.strip()) or ty.startswith('&dyn') or ty.startswith('dyn'):
                return ('dyn', (tfull, tseg, meth), {})
            return ('static', self._lookup_trait(last_seg(ty), tfull, tseg, meth))
        name = strip_generics(callee)
        if name in prog.free:
            return ('static', prog.free[name])
        parts = name.split('::')
        if len(parts) >= 2:
            c = prog.by_type_method.get((parts[-2], parts[-1]))
            if c:
                inh = [x for x in c if x.impl_trait is None]
                if len(inh) == 1:
                    return ('static', inh[0])
                if len(c) == 1:
                    return ('static', c[0])
                return ('ambiguous', c)
            f = prog.defaults.get((parts[-2], parts[-1]))
            if f is not None:
                return ('static', f)
            if '{closure#' in parts[-1]:
                for fs in prog.fns.get(callee, []):
                    return ('static', fs)
        return ('static', None)

    def _crate_type(self, tyseg):
        if tyseg in self.prog.struct_fields:
            return True
        for (t, _m) in self.prog.by_type_method:
            if t == tyseg:
                return True
        return False

    def call(self, callee, args):
        if self.trace_calls is not None:
            self.trace_calls.append((self.depth, callee))
        h = self.hooks.get('call')
        if h is not None:
            r = h(self, callee, args)
            if r is not None:
                return r[0]
        f = self.resolve(callee, args)
        if f is not None:
            return self.run_fn(f, args)
        self.stats.models_used[callee] = self.stats.models_used.get(callee, 0) + 1
        return self.models.call_model(self, callee, args)

    def call_closure(self, clo, args):
        """invoke a closure value with positional args"""
        clo_v = deref(clo)
        if type(clo_v) is not Adt:
            raise Unmodelled('closure value %r' % (clo_v,))
        key = clo_v.name
        f = self.prog.closures.get(key)
        if f is None:
            # fn item used as a function value
            ff = self.resolve(key, args)
            if ff is not None:
                return self.run_fn(ff, list(args))
            parts = strip_generics(key).split('::')
            if len(parts) >= 2 and parts[-2] in self.prog.enums and parts[-1] in self.prog.enums[parts[-2]]:
                return Adt(parts[-2], parts[-1], list(args))      # enum variant constructor
            return self.call(key, list(args))
        p0 = f.params[0][1]
        recv = clo_v
        if p0.startswith('&'):
            recv = clo if isinstance(clo, Ref) else Ref([clo_v], 0)
        nformal = len(f.params) - 1
        args = list(args)
        if nformal == 1 and len(args) != 1:
            args = [Tup(*args)]
        elif nformal != len(args) and len(args) == 1 and type(args[0]) is Adt and args[0].name == 'tuple':
            args = list(args[0].fields)
        return self.run_fn(f, [recv] + args)


# ----------------------------------------------------------------------------------------- exploration

class Violation:
    def __init__(self, kind, label, detail, model=None, decisions=None):
        self.kind, self.label, self.detail, self.model, self.decisions = kind, label, detail, model, decisions

    def __repr__(self):
        return 'Violation(%s, %s, %s)' % (self.kind, self.label, self.detail)


def explore(prog, harness, stats=None, release=False, max_paths=200000, qtimeout_ms=10000, on_path=None):
    """run `harness(ex)` on every feasible path. harness returns a list of Violation (or None).
    Returns (violations, inconclusive list). Panic / Deadlock escaping the harness are passed to
    harness via ex.hooks['on_panic'] if present, else recorded as violations of kind 'panic'."""
    stats = stats or Stats()
    solver = z3.SolverFor('QF_BV')
    solver.set('timeout', qtimeout_ms)
    work = [[]]
    violations, inconclusive = [], []
    while work:
        prefix = work.pop()
        if stats.paths >= max_paths:
            inconclusive.append('path bound %d reached' % max_paths)
            break
        stats.paths += 1
        solver.push()
        ex = Exec(prog, solver, prefix, stats, release=release, qtimeout_ms=qtimeout_ms)
        try:
            r = harness(ex)
            if r:
                violations.extend(r)
        except Infeasible:
            pass
        except Bound as b:
            inconclusive.append('BOUND ' + str(b))
        except Unmodelled as u:
            inconclusive.append('UNMODELLED ' + str(u))
        finally:
            stats.steps += ex.steps
            work.extend(ex.pending)
            solver.pop()
        if on_path:
            on_path(ex)
    return violations, inconclusive
