"""OS contract model (OSM): std::fs / std::path / filetime as seen by PhysicalFS, over an abstract
POSIX tree with Linux outcomes.  Every claim that involves PhysicalFS is *relative to this model*;
the model itself is validated against the real kernel by the native differential selftest
(scripts with `fs R phys` run on a real temp directory).  Symlinks, permissions, hard links and
concurrent modification by other processes are outside the model."""
import z3

from .values import *   # noqa
from .models import model, as_S, io_error, call_model, d, seek_model, _char_bytes
from . import models

SL = 0x2f


def _clock(ex, tag):
    """a time stamp set by the kernel: a clock reading (>= 1e9 s, printed as 'other' by both script drivers)"""
    return clock_reading(ex, tag)


class OsFile:
    """inode of a regular file"""
    __slots__ = ('data', 'mtime', 'atime', 'ctime')

    def __init__(self, ex):
        self.data = S()
        self.mtime = Adt('SystemTime', None, [_clock(ex, 'os_mtime')])
        self.atime = Adt('SystemTime', None, [_clock(ex, 'os_atime')])
        self.ctime = Adt('SystemTime', None, [_clock(ex, 'os_btime')])


class OsDir:
    __slots__ = ('mtime', 'atime', 'ctime')

    def __init__(self, ex):
        self.mtime = Adt('SystemTime', None, [_clock(ex, 'os_mtime')])
        self.atime = Adt('SystemTime', None, [_clock(ex, 'os_atime')])
        self.ctime = Adt('SystemTime', None, [_clock(ex, 'os_btime')])


class OsSpecial:
    """a directory entry that is neither a regular file nor a directory (a unix socket): hostile on-disk content"""
    __slots__ = ('mtime', 'atime', 'ctime')

    def __init__(self, ex):
        self.mtime = Adt('SystemTime', None, [_clock(ex, 'os_mtime')])
        self.atime = Adt('SystemTime', None, [_clock(ex, 'os_atime')])
        self.ctime = Adt('SystemTime', None, [_clock(ex, 'os_btime')])


class OsDangling(OsSpecial):
    """a symbolic link whose target does not exist: the name is occupied, following it fails with ENOENT"""
    __slots__ = ()


class OsHandle:
    """std::fs::File"""
    __slots__ = ('node', 'pos', 'append', 'readable', 'writable')

    def __init__(self, node, append=False, readable=True, writable=False):
        self.node, self.pos, self.append, self.readable, self.writable = node, 0, append, readable, writable


class Osm:
    def __init__(self, ex):
        self.ex = ex
        self.nodes = {(): OsDir(ex)}        # tuple of component byte-tuples -> OsDir | OsFile
        self.hostile = False

    def comps(self, path):
        """lexical+tree resolution of an absolute or relative path string (no symlinks): components tuple"""
        p = as_S(path)
        if not p.is_concrete():
            # symbolic names: split at '/' by forking
            parts, cur = [], []
            for b in p:
                if self.ex.branch(beq(b, SL)):
                    parts.append(tuple(cur)); cur = []
                else:
                    cur.append(b)
            parts.append(tuple(cur))
        else:
            parts = [tuple(x) for x in bytes(p).split(b'/')]
        out = []
        for c in parts:
            if len(c) == 0 or (len(c) == 1 and self.ex.branch(beq(c[0], 0x2e))):
                continue
            if len(c) == 2 and self.ex.branch(zand([beq(c[0], 0x2e), beq(c[1], 0x2e)])):
                if out:
                    out.pop()
                continue
            out.append(tuple(c))
        return tuple(out)

    def find(self, comps):
        """-> (key or None, node or None); keys are matched with solver-decided equality"""
        for k, n in self.nodes.items():
            if len(k) == len(comps) and self.ex.branch(zand([seq_eq(a, b) if len(a) == len(b) else False for a, b in zip(k, comps)])):
                return k, n
        return None, None

    def lookup(self, path, follow=True):
        """-> ('ok', key, node) | ('err', kind); follow: resolve a final symbolic link (stat vs lstat)"""
        c = self.comps(path)
        # every proper prefix must be a directory
        for i in range(len(c)):
            k, n = self.find(c[:i])
            if n is None or isinstance(n, OsDangling):
                return ('err', 'NotFound', c)
            if not isinstance(n, OsDir):
                return ('err', 'NotADirectory', c)
        k, n = self.find(c)
        if n is None or (follow and isinstance(n, OsDangling)):
            return ('err', 'NotFound', c)
        return ('ok', k, n)

    def parent_dir(self, c):
        if not c:
            return ('err', 'InvalidInput')
        for i in range(len(c)):
            k, n = self.find(c[:i])
            if n is None:
                return ('err', 'NotFound')
            if not isinstance(n, OsDir):
                return ('err', 'NotADirectory')
        return ('ok',)

    def children(self, key):
        return [k for k in self.nodes if len(k) == len(key) + 1 and k[:len(key)] == key]


def osm(ex):
    o = ex.hooks.get('osm')
    if o is None:
        o = ex.hooks['osm'] = Osm(ex)
    return o


def E(kind):
    return Err(io_error(kind))


# ------------------------------------------------------------------------------------------ paths

@model(r'<T as AsRef<Path>>::as_ref|Path::to_path_buf|<PathBuf as Deref>::deref|<OsString as Deref>::deref|<OsString as AsRef<OsStr>>::as_ref|OsString::as_os_str|<&?PathBuf as AsRef<Path>>::as_ref|PathBuf::as_path|<PathBuf as Clone>::clone|<&Path as AsRef<Path>>::as_ref|PathBuf::from|<PathBuf as From<.+>>::from|<str as AsRef<Path>>::as_ref|<String as AsRef<Path>>::as_ref|<&str as AsRef<Path>>::as_ref|Path::new::<.+>')
def m_path_conv(ex, c, a, m):
    return as_S(a[0])


@model(r'Path::join::<.+>|PathBuf::join::<.+>')
def m_path_join(ex, c, a, m):
    base, rel = as_S(a[0]), as_S(a[1])
    if len(rel) and ex.branch(beq(rel[0], SL)):
        return rel                      # an absolute argument replaces the base
    if len(base) and not ex.branch(beq(base[-1], SL)):
        return S(base + (SL,) + tuple(rel))
    return S(base + tuple(rel))


@model(r'Path::exists|Path::is_dir|Path::is_file|Path::try_exists')
def m_path_exists(ex, c, a, m):
    r = osm(ex).lookup(a[0])
    if c.endswith('try_exists'):
        # Ok(false) only for ENOENT; any other failure of the lookup (a prefix is not a directory) is an error
        if r[0] == 'err' and r[1] != 'NotFound':
            return E(r[1])
        return Ok(r[0] == 'ok')
    if c.endswith('is_dir'):
        return r[0] == 'ok' and isinstance(r[2], OsDir)
    if c.endswith('is_file'):
        return r[0] == 'ok' and isinstance(r[2], OsFile)
    return r[0] == 'ok'


def metadata_of(n):
    return Adt('Metadata', None, [n])


@model(r'Path::metadata|(std::fs::)?metadata::<.+>|Path::symlink_metadata|(std::fs::)?symlink_metadata::<.+>')
def m_metadata(ex, c, a, m):
    r = osm(ex).lookup(a[0], follow='symlink_metadata' not in c)
    if r[0] == 'err':
        return E(r[1])
    return Ok(metadata_of(r[2]))


@model(r'(std::fs::)?Metadata::file_type')
def m_metadata_file_type(ex, c, a, m):
    return Adt('FileType', None, [d(a[0]).fields[0]])


@model(r'(std::fs::)?FileType::(is_dir|is_file|is_symlink)')
def m_file_type_is(ex, c, a, m):
    n = d(a[0]).fields[0]
    return {'is_dir': isinstance(n, OsDir), 'is_file': isinstance(n, OsFile), 'is_symlink': False}[m.group(2)]


@model(r'(std::fs::)?Metadata::(is_dir|is_file|len|modified|created|accessed|last_modified)')
def m_metadata_get(ex, c, a, m):
    n = d(a[0]).fields[0]
    op = m.group(2)
    if not isinstance(n, (OsDir, OsFile, OsSpecial)):
        return NONE()                      # rust_embed::Metadata of the RustEmbed model
    if op == 'is_dir':
        return isinstance(n, OsDir)
    if op == 'is_file':
        return isinstance(n, OsFile)
    if op == 'len':
        return len(n.data) if isinstance(n, OsFile) else (0 if isinstance(n, OsSpecial) else 4096)
    return Ok({'modified': n.mtime, 'created': n.ctime, 'accessed': n.atime}[op])


# ------------------------------------------------------------------------------------------ directory operations

@model(r'(std::fs::)?create_dir::<.+>')
def m_create_dir(ex, c, a, m):
    o = osm(ex)
    comps = o.comps(a[0])
    p = o.parent_dir(comps)
    if p[0] == 'err':
        return E(p[1])
    k, n = o.find(comps)
    if n is not None:
        return E('AlreadyExists')
    o.nodes[comps] = OsDir(ex)
    return Ok(UNIT)


@model(r'(std::fs::)?remove_dir::<.+>')
def m_remove_dir(ex, c, a, m):
    o = osm(ex)
    r = o.lookup(a[0])
    if r[0] == 'err':
        return E(r[1])
    if not isinstance(r[2], OsDir):
        return E('NotADirectory')
    if o.children(r[1]):
        return E('DirectoryNotEmpty')
    if r[1] == ():
        return E('ResourceBusy')
    del o.nodes[r[1]]
    return Ok(UNIT)


@model(r'(std::fs::)?remove_file::<.+>')
def m_remove_file(ex, c, a, m):
    o = osm(ex)
    r = o.lookup(a[0], follow=False)
    if r[0] == 'err':
        return E(r[1])
    if isinstance(r[2], OsDir):
        return E('IsADirectory')
    del o.nodes[r[1]]
    return Ok(UNIT)


@model(r'Path::read_dir|(std::fs::)?read_dir::<.+>')
def m_read_dir(ex, c, a, m):
    o = osm(ex)
    r = o.lookup(a[0])
    if r[0] == 'err':
        return E(r[1])
    if not isinstance(r[2], OsDir):
        return E('NotADirectory')
    items = [k for k in o.children(r[1])]
    order = ex.hooks.get('map_order')
    if order is not None:
        items = order(ex, items)
    return Ok(PyIter([Ok(Adt('DirEntry', None, [S(k[-1])])) for k in items]))


@model(r'(std::fs::)?DirEntry::(file_name|path)')
def m_direntry(ex, c, a, m):
    return d(a[0]).fields[0]


@model(r'OsString::into_string|OsStr::to_str|OsString::to_str')
def m_osstring(ex, c, a, m):
    s = as_S(a[0])
    if ex.branch(models.utf8_valid(ex, s)):
        return Ok(s) if 'into_string' in c else Some(s)
    return Err(s) if 'into_string' in c else NONE()


# ------------------------------------------------------------------------------------------ files

def open_node(ex, path, create=False, truncate=False, write=False, append=False, read=True):
    o = osm(ex)
    comps = o.comps(path)
    k, n = None, None
    p = o.parent_dir(comps) if comps else ('ok',)
    if p[0] == 'err':
        return E(p[1])
    k, n = o.find(comps)
    if n is None:
        if not create:
            return E('NotFound')
        n = o.nodes[comps] = OsFile(ex)
    elif isinstance(n, OsDir):
        if write or append or create:
            return E('IsADirectory')
        return Ok(OsHandle(n, readable=True))
    elif isinstance(n, OsDangling):
        if create or write or append:
            raise Unmodelled('creating a file through a dangling symbolic link is outside the OS model')
        return E('NotFound')
    elif isinstance(n, OsSpecial):
        raise Unmodelled('open(2) of a socket (ENXIO) is outside the OS model')
    if truncate:
        n.data = S()
    return Ok(OsHandle(n, append=append, readable=read, writable=write or append))


@model(r'File::open::<.+>')
def m_file_open(ex, c, a, m):
    return open_node(ex, a[0])


@model(r'File::create::<.+>')
def m_file_create(ex, c, a, m):
    return open_node(ex, a[0], create=True, truncate=True, write=True, read=False)


@model(r'OpenOptions::new')
def m_oo_new(ex, c, a, m):
    return Adt('OpenOptions', None, [], extra={'read': False, 'write': False, 'append': False, 'create': False, 'truncate': False, 'create_new': False})


@model(r'OpenOptions::(read|write|append|create|truncate|create_new)')
def m_oo_set(ex, c, a, m):
    oo = d(a[0])
    oo.extra[m.group(1)] = a[1] if isinstance(a[1], bool) else ex.branch(a[1])
    return a[0]


@model(r'OpenOptions::open::<.+>')
def m_oo_open(ex, c, a, m):
    oo = d(a[0]).extra
    if not (oo['read'] or oo['write'] or oo['append']):
        return E('InvalidInput')
    if oo['create_new']:
        o = osm(ex)
        if o.lookup(a[1])[0] == 'ok':
            return E('AlreadyExists')
    return open_node(ex, a[1], create=oo['create'] or oo['create_new'], truncate=oo['truncate'], write=oo['write'], append=oo['append'], read=oo['read'])


@model(r'<File as (std::io::)?Read>::read|<&File as (std::io::)?Read>::read')
def m_file_read(ex, c, a, m):
    h = d(a[0])
    if isinstance(h.node, OsDir):
        return E('IsADirectory')
    if not h.readable:
        return E('Uncategorized')         # EBADF
    data = h.node.data
    buf = a[1]
    n = len(buf.get())
    p = ex.concretize(h.pos, len(data))
    if p is None:
        return Ok(0)
    k = min(n, len(data) - p)
    cur = buf.get()
    buf.set(S(tuple(data[p:p + k]) + tuple(cur[k:])))
    h.pos = p + k
    return Ok(k)


@model(r'<File as (std::io::)?Write>::(write|flush)|<&File as (std::io::)?Write>::(write|flush)')
def m_file_write(ex, c, a, m):
    h = d(a[0])
    if (m.group(2) or m.group(4)) == 'flush':
        return Ok(UNIT)
    if not h.writable:
        return E('Uncategorized')
    buf = as_S(a[1])
    data = h.node.data
    pos = len(data) if h.append else h.pos
    p = ex.concretize(pos, len(data) + models.MAX_GAP)
    if p is None:
        raise Bound('file write more than %d bytes beyond the end' % models.MAX_GAP)
    if len(buf) == 0:
        return Ok(0)
    if p > len(data):
        data = S(data + (0,) * (p - len(data)))
    h.node.data = S(data[:p] + tuple(buf) + data[p + len(buf):])
    h.pos = p + len(buf)
    return Ok(len(buf))


@model(r'<File as (std::io::)?Seek>::seek|<&File as (std::io::)?Seek>::seek')
def m_file_seek(ex, c, a, m):
    h = d(a[0])
    if isinstance(h.node, OsDir):
        raise Unmodelled('OUTSIDE-OSM: lseek on a directory handle is filesystem specific')
    r = seek_model(ex, len(h.node.data), h.pos, a[1])
    if r[0] == 'err':
        return E('InvalidInput')
    # lseek accepts offsets up to i64::MAX only
    if is_sym(r[1]) and ex.branch(r[1] < 0):
        return E('InvalidInput')
    if type(r[1]) is int and r[1] >= 1 << 63:
        return E('InvalidInput')
    h.pos = r[1]
    return Ok(r[1])


@model(r'(std::fs::)?copy::<.+>')
def m_fs_copy(ex, c, a, m):
    o = osm(ex)
    r = o.lookup(a[0])
    if r[0] == 'err':
        return E(r[1])
    if not isinstance(r[2], OsFile):
        return E('InvalidInput')
    w = open_node(ex, a[1], create=True, truncate=True, write=True)
    if w.variant == 'Err':
        return w
    w.fields[0].node.data = r[2].data
    return Ok(len(r[2].data))


@model(r'(std::fs::)?rename::<.+>')
def m_fs_rename(ex, c, a, m):
    o = osm(ex)
    r = o.lookup(a[0])
    if r[0] == 'err':
        return E(r[1])
    dst = o.comps(a[1])
    p = o.parent_dir(dst)
    if p[0] == 'err':
        return E(p[1])
    src = r[1]
    if len(dst) >= len(src) and dst[:len(src)] == src and dst != src:
        return E('InvalidInput')               # into its own subtree
    dk, dn = o.find(dst)
    if dn is not None and dk != src:
        if isinstance(r[2], OsDir):
            if not isinstance(dn, OsDir):
                return E('NotADirectory')
            if o.children(dk):
                return E('DirectoryNotEmpty')
        elif isinstance(dn, OsDir):
            return E('IsADirectory')
        del o.nodes[dk]
    if dk == src:
        return Ok(UNIT)
    moved = [(k, n) for k, n in o.nodes.items() if k[:len(src)] == src]
    for k, n in moved:
        del o.nodes[k]
    for k, n in moved:
        o.nodes[dst + k[len(src):]] = n
    return Ok(UNIT)


# ------------------------------------------------------------------------------------------ filetime

@model(r'<FileTime as From<SystemTime>>::from|FileTime::from_system_time')
def m_filetime_from(ex, c, a, m):
    return a[0]


@model(r'(filetime::)?set_file_(m|a)time::<.+>')
def m_set_file_time(ex, c, a, m):
    r = osm(ex).lookup(a[0])
    if r[0] == 'err':
        return E(r[1])
    if m.group(2) == 'm':
        r[2].mtime = a[1]
    else:
        r[2].atime = a[1]
    return Ok(UNIT)


@model(r'<File as Debug>::fmt|<PathBuf as Debug>::fmt')
def m_dbg(ex, c, a, m):
    return Ok(UNIT)


@model(r'(std::fs::)?hard_link::<.+>')
def m_hard_link(ex, c, a, m):
    o = osm(ex)
    r = o.lookup(a[0])
    if r[0] == 'err':
        return E(r[1])
    if isinstance(r[2], OsDir):
        return E('PermissionDenied')
    dst = o.comps(a[1])
    p = o.parent_dir(dst)
    if p[0] == 'err':
        return E(p[1])
    if o.find(dst)[1] is not None:
        return E('AlreadyExists')
    o.nodes[dst] = r[2]            # a second name for the same inode
    return Ok(UNIT)


@model(r'FileTimes::new')
def m_filetimes_new(ex, c, a, m):
    return Adt('FileTimes', None, [NONE(), NONE()])


@model(r'FileTimes::(set_modified|set_accessed)')
def m_filetimes_set(ex, c, a, m):
    ft = d(a[0])
    return Adt('FileTimes', None, [Some(a[1]), ft.fields[1]] if m.group(1) == 'set_modified' else [ft.fields[0], Some(a[1])])


@model(r'File::(set_times|set_modified)')
def m_file_set_times(ex, c, a, m):
    h = d(a[0])
    if m.group(1) == 'set_modified':
        h.node.mtime = a[1]
        return Ok(UNIT)
    ft = d(a[1])
    if ft.fields[0].variant == 'Some':
        h.node.mtime = ft.fields[0].fields[0]
    if ft.fields[1].variant == 'Some':
        h.node.atime = ft.fields[1].fields[0]
    return Ok(UNIT)


@model(r'OsString::to_string_lossy|OsStr::to_string_lossy|std::ffi::OsStr::to_string_lossy|Path::to_string_lossy')
def m_to_string_lossy(ex, c, a, m):
    s = as_S(a[0])
    if not s.is_concrete():
        if ex.branch(models.utf8_valid(ex, s)):
            return Adt('Cow', 'Borrowed', [s])
        raise Unmodelled('to_string_lossy of a symbolic non-UTF-8 name')
    return Adt('Cow', 'Owned', [S(bytes(s).decode('utf-8', 'replace').encode('utf-8'))])
