"""Regenerate the MIR dump from /repo's *current working tree* (every run; nothing is cached)."""
import os
import shutil
import subprocess
import sys
import tempfile

REPO = os.environ.get('VERIF_REPO', '/repo')
SCRATCH_BASE = os.environ.get('VERIF_SCRATCH', '/var/tmp')


class DumpError(Exception):
    pass


def make_scratch(tag='verif'):
    d = tempfile.mkdtemp(prefix='%s.%d.' % (tag, os.getpid()), dir=SCRATCH_BASE)
    return d


def copy_repo(dst):
    os.makedirs(dst, exist_ok=True)
    r = subprocess.run(['rsync', '-a', '--delete', '--exclude', 'target', '--exclude', '.git', REPO + '/', dst + '/'],
                       capture_output=True, text=True)
    if r.returncode != 0:
        raise DumpError('rsync failed: ' + r.stderr)


def dump_mir(scratch, features=(), toolchain='+nightly', extra_env=None):
    """returns (mir text, source root). `scratch` must be a fresh directory; caller removes it"""
    src = os.path.join(scratch, 'repo')
    copy_repo(src)
    env = dict(os.environ)
    env['CARGO_TARGET_DIR'] = os.path.join(scratch, 'target')
    env['CARGO_NET_OFFLINE'] = 'true'
    env.pop('RUSTFLAGS', None)
    if extra_env:
        env.update(extra_env)
    cmd = ['cargo', toolchain, 'rustc', '--offline', '--lib']
    if features:
        cmd += ['--features', ','.join(features)]
    cmd += ['--', '-Zunpretty=mir', '-C', 'debug-assertions=off', '-C', 'overflow-checks=on']
    r = subprocess.run(cmd, cwd=src, env=env, capture_output=True, text=True)
    if r.returncode != 0 or not r.stdout.strip():
        raise DumpError('MIR dump failed (%s):\n%s' % (' '.join(cmd), r.stderr[-3000:]))
    return r.stdout, src


def cleanup(scratch):
    shutil.rmtree(scratch, ignore_errors=True)


if __name__ == '__main__':
    s = make_scratch('dumptest')
    try:
        text, src = dump_mir(s, tuple(sys.argv[1:]))
        print(len(text.split('\n')), 'lines')
    finally:
        cleanup(s)
